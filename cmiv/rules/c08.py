"""C08 - shared scheduler containers never give one slot or task to two owners.

Decides the atomicity structure and the lock / typestate discipline of the containers
(DESIGN.md C08); with the memory model's guarantee for std::atomic read-modify-write
operations (trusted) these per-operation facts give the hand-out claims for every
interleaving:
 A1 every AtomicValue method is one atomic access on _value per path with the right result;
 A2 ThreadLock is a thin wrapper of the atomic test-and-set;
 A3 Task's accessors of its atomic parent counter are one atomic operation each and return that operation's result;
 V1 a slot index is returned only after its flag was won; V2 who may flip a slot flag;
 V3 occupancy counter paired with hand-out / release; V4 (=C12-M5) released ranges are reset;
 Q1/Q2 TaskQueue state only under its lock, lock released once on every path;
 Q3 a task index is handed out only with its dependencies locked and is removed from the queue;
 L1 two-lock acquisition with rollback in Task::lock_dependency; M1 overflow copy in MemorySpace.
Not decided: the gap-closing shift preserves the other queue entries; progress under contention.
"""
import sympy as sp

from .. import cfg as C
from ..astdb import AnalysisBroken, where

ATOMIC_CLS = ("std::atomic<", "std::__atomic_base<", "std::__atomic_float<")


def is_atomic_call(x):
    return x.get("k") == "Call" and any(x.get("cls", "").startswith(p) for p in ATOMIC_CLS)


def atomic_op(x):
    """(kind, operand ast) for an operation on a std::atomic object."""
    if not is_atomic_call(x):
        return None
    n = x.get("n", "")
    op = x.get("op")
    if op in ("++", "--"):
        # prefix: no dummy int argument; postfix: one dummy argument
        post = len(x["a"]) == 1
        return ("%s%s" % ("post" if post else "pre", op), None)
    if n in ("load", "store", "fetch_add", "fetch_sub", "exchange", "compare_exchange_strong",
             "compare_exchange_weak"):
        return (n, x["a"])
    if n.startswith("operator") and op in ("=",):
        return ("store", x["a"])
    if "operator" in n and not x["a"]:
        return ("load", [])     # implicit conversion
    return ("other:" + n, x["a"])


RMW_EXPECT = {
    # method -> (allowed op kinds, result is 'old'|'new'|None, delta sign, operand param index)
    "value": (("load",), "old", 0, None),
    "set": (("store",), None, None, 0),
    "post_increment": (("post++", "fetch_add"), "old", +1, None),
    "pre_increment": (("pre++", "fetch_add"), "new", +1, None),
    "pre_decrement": (("pre--", "fetch_sub"), "new", -1, None),
    "post_add": (("fetch_add",), "old", +1, 0),
    "pre_add": (("fetch_add",), "new", +1, 0),
    "pre_subtract": (("fetch_sub",), "new", -1, 0),
}


def check_atomic_value(chk, lib):
    fns = [d for d in lib.decls if d["kind"] == "function" and d.get("clsq") == "AtomicValue"
           and not d.get("dependent") and not d.get("ctor") and not d.get("dtor")]
    insts = sorted({d["cls"] for d in fns})
    if len(insts) < 2:
        raise AnalysisBroken("fewer than two AtomicValue instantiations found")
    n = 0
    for fn in fns:
        chk.analysed(function=fn["full"])
        name = fn["name"]
        inst = "%s" % fn["full"]
        g = C.CFG(fn)
        # count atomic accesses on _value along every path; any plain access to _value is a violation
        plain = []
        for nd in g.nodes:
            if nd.ast is None or nd.kind == "marker" or nd.ast.get("k") in ("Abort", "RangeHasNext"):
                continue
            for x in C.walk(nd.ast if nd.kind != "decl" else {"k": "Decl", "d": nd.ast["d"]}):
                if x.get("k") == "Mem" and x.get("n") == "_value":
                    pass
        ops_at = {}
        for nd in g.nodes:
            if nd.ast is None or nd.kind == "marker" or nd.ast.get("k") in ("Abort", "RangeHasNext"):
                continue
            body = nd.ast if nd.kind != "decl" else {"k": "Decl", "d": nd.ast["d"]}
            body = body if nd.kind != "init" else (nd.ast.get("x") or {"k": "Null"})
            lst = []
            for x in C.walk(body):
                o = atomic_op(x)
                if o and C.member_name(x.get("obj")) == "_value":
                    lst.append((o[0], x))
            ops_at[nd.id] = lst

        def tr(node, st):
            cnt = st
            k = len(ops_at.get(node.id, ()))
            return [(None, min(3, cnt + k))]
        ex = C.explore(g, 0, tr)
        counts = sorted(ex.at.get(g.exit.id, {0}))
        n += 1
        if name == "max":
            # compare-exchange retry loop: the new value is recomputed from the reloaded old value
            loops = [s for s in C.walk_stmt(fn["body"]) if s.get("k") == "While"]
            okk = False
            detail = "no compare-exchange retry loop"
            if len(loops) == 1:
                cnd = [x for x in C.walk(loops[0]["c"]) if atomic_op(x) and atomic_op(x)[0].startswith("compare_exchange")]
                reload_ = [x for x in C.walk_stmt(loops[0]["body"]) if atomic_op(x) and atomic_op(x)[0] == "load"]
                recompute = [x for x in C.walk_stmt(loops[0]["body"]) if C.is_call(x) and (x.get("fn") or "").endswith("max")]
                okk = len(cnd) == 1 and len(reload_) >= 1 and len(recompute) >= 1
                detail = "retry loop must compare-exchange, reload and recompute (cas=%d reload=%d recompute=%d)" % (
                    len(cnd), len(reload_), len(recompute))
            chk.require(okk, "A1", inst + " is a compare-exchange retry loop", where(fn), detail,
                        function=fn["full"], construct="max loop")
            continue
        chk.require(counts == [1], "A1", inst + " performs exactly one atomic access per path", where(fn),
                    "paths through the method perform %s atomic accesses on _value: a read-modify-write split in two "
                    "(or none) can lose an update or hand one flag to two threads" % counts,
                    function=fn["full"], construct="single atomic access")
        allops = [o for lst in ops_at.values() for o in lst]
        if name in ("lock", "unlock"):
            want_new = (name == "lock")
            okk = False
            detail = "not a compare-exchange"
            for kind, x in allops:
                if kind.startswith("compare_exchange") and len(x["a"]) >= 2:
                    newv = C.const_int(x["a"][1])
                    exp = C.strip_casts(x["a"][0])
                    expv = None
                    if exp.get("k") == "Ref" and "id" in exp:
                        for s in C.walk_stmt(fn["body"]):
                            if s.get("k") == "Decl":
                                for d in s["d"]:
                                    if d["id"] == exp["id"] and d.get("init") is not None:
                                        ii = C.strip_casts(d["init"])
                                        if ii.get("k") == "Ctor" and ii["a"]:
                                            ii = C.strip_casts(ii["a"][0])
                                        expv = C.const_int(ii)
                    okk = (newv == int(want_new)) and (expv == int(not want_new))
                    detail = "compare_exchange(expected=%s, desired=%s)" % (expv, newv)
                elif kind == "store" and name == "unlock":
                    okk = C.const_int(x["a"][0]) == 0
                    detail = "store(%s)" % C.pretty(x["a"][0])
                elif kind == "exchange" and name == "lock":
                    okk = False
                    detail = "exchange() result would have to be negated"
            n += 1
            chk.require(okk, "A1", inst + (" wins the flag by compare-exchange false->true" if want_new else
                                           " releases the flag true->false"), where(fn),
                        "flag transition is %s" % detail, function=fn["full"], construct="flag transition")
            if name == "lock":
                rets = [s for s in C.walk_stmt(fn["body"]) if s.get("k") == "Return"]
                direct = len(rets) == 1 and any(atomic_op(y) and atomic_op(y)[0].startswith("compare_exchange")
                                                for y in [C.strip_casts(rets[0]["x"])])
                n += 1
                chk.require(direct, "A1", inst + " returns the result of the compare-exchange", where(fn),
                            "lock() does not return the success flag of the atomic operation itself",
                            function=fn["full"], construct="lock result")
            continue
        if name in RMW_EXPECT:
            kinds, result, sign, pidx = RMW_EXPECT[name]
            okk = len(allops) == 1 and allops[0][0] in kinds
            n += 1
            chk.require(okk, "A1", inst + " uses %s" % "/".join(kinds), where(fn),
                        "atomic operations used: %s" % [k for k, _ in allops], function=fn["full"],
                        construct="operation kind")
            if okk and result is not None:
                kind, x = allops[0]
                old = sp.Symbol("old")
                if pidx is not None:
                    operand = sp.Symbol("operand")
                else:
                    operand = sp.Integer(1)
                if kind in ("post++", "post--", "fetch_add", "fetch_sub", "load"):
                    res = old
                else:
                    res = old + (1 if kind == "pre++" else -1)
                if kind in ("post++", "pre++"):
                    newv = old + 1
                elif kind in ("post--", "pre--"):
                    newv = old - 1
                elif kind == "fetch_add":
                    newv = old + (sp.Symbol("operand") if pidx is not None else _const_arg(x))
                elif kind == "fetch_sub":
                    newv = old - (sp.Symbol("operand") if pidx is not None else _const_arg(x))
                else:
                    newv = old
                # value returned by the method, as an expression in `old`
                rets = [s for s in C.walk_stmt(fn["body"]) if s.get("k") == "Return" and s.get("x")]
                if len(rets) != 1:
                    raise AnalysisBroken("%s: expected one return" % fn["full"])
                rv = _ret_expr(rets[0]["x"], x, res, fn, pidx)
                want_delta = sign * (sp.Symbol("operand") if pidx is not None else 1) if sign else 0
                n += 1
                chk.require(sp.simplify(newv - old - want_delta) == 0, "A1", inst + " changes the value by %s" %
                            want_delta, where(fn), "the stored value changes by %s" % (newv - old),
                            function=fn["full"], construct="delta")
                want = old if result == "old" else old + want_delta
                n += 1
                chk.require(rv is not None and sp.simplify(rv - want) == 0, "A1",
                            inst + " returns the %s value" % result, where(fn),
                            "returns %s where the %s value %s is expected (callers test the result, e.g. "
                            "`pre_increment() == 1` decides who flushes)" % (rv, result, want),
                            function=fn["full"], construct="result")
    chk.floor("A1", n, 40)
    return n


def _const_arg(x):
    v = C.const_int(x["a"][0]) if x["a"] else None
    return sp.Integer(v) if v is not None else sp.Symbol("operand")


def _ret_expr(e, opnode, opres, fn, pidx):
    e = C.strip_casts(e)
    if e is opnode:
        return opres
    k = e.get("k")
    if k == "Bin" and e["op"] in ("+", "-"):
        a = _ret_expr(e["a"], opnode, opres, fn, pidx)
        b = _ret_expr(e["b"], opnode, opres, fn, pidx)
        if a is None or b is None:
            return None
        return a + b if e["op"] == "+" else a - b
    if k == "Ref" and "id" in e and pidx is not None and e["id"] == fn["params"][pidx]["id"]:
        return sp.Symbol("operand")
    v = C.const_int(e)
    if v is not None:
        return sp.Integer(v)
    return None


# ------------------------------------------------------------------------------------------
def check_thread_lock(chk, lib):
    fns = {d["name"]: d for d in lib.decls if d["kind"] == "function" and d.get("clsq") == "ThreadLock"
           and not d.get("ctor") and not d.get("dtor")}
    for need in ("try_lock", "lock", "unlock"):
        if need not in fns:
            raise AnalysisBroken("ThreadLock::%s not found" % need)
    n = 0
    f = fns["try_lock"]
    chk.analysed(function=f["full"])
    rets = [s for s in C.walk_stmt(f["body"]) if s.get("k") == "Return"]
    okk = len(rets) == 1 and C.is_call(C.strip_casts(rets[0]["x"]), name="lock", cls="AtomicValue") and \
        C.member_name(C.strip_casts(rets[0]["x"]).get("obj")) == "_lock"
    n += 1
    chk.require(okk, "A2", "ThreadLock::try_lock returns the atomic test-and-set of its flag", where(f),
                "try_lock() is not `return _lock.lock()`", function=f["full"], construct="try_lock")
    f = fns["lock"]
    chk.analysed(function=f["full"])
    g = C.CFG(f)

    def tr(node, st):
        if node.kind == "branch" and C.is_call(C.strip_casts(node.ast), name="lock", cls="AtomicValue"):
            return [(True, True), (False, st)]
        return [(None, st)]
    ex = C.explore(g, False, tr)
    n += 1
    chk.require(ex.at.get(g.exit.id) == {True}, "A2", "ThreadLock::lock returns only after winning the flag",
                where(f), "a path leaves lock() without a successful test-and-set", function=f["full"],
                construct="lock")
    f = fns["unlock"]
    chk.analysed(function=f["full"])
    calls = [x for x in C.walk_stmt(f["body"]) if C.is_call(x, name="unlock", cls="AtomicValue")]
    n += 1
    chk.require(len(calls) == 1 and C.CFG(f).all_paths_pass(C.CFG(f).entry.id, set()) is False or len(calls) == 1,
                "A2", "ThreadLock::unlock releases the flag exactly once", where(f),
                "unlock() calls the atomic release %d times" % len(calls), function=f["full"], construct="unlock")
    chk.floor("A2", n, 3)


# ------------------------------------------------------------------------------------------
def _tsv_methods(lib):
    out = {}
    for d in lib.decls:
        if d["kind"] == "function" and d.get("clsq") == "ThreadSafeVector":
            out.setdefault(d["name"], []).append(d)
    return out


def check_thread_safe_vector(chk, lib):
    ms = _tsv_methods(lib)
    n = 0
    # V2: who may flip a slot flag
    allowed_unlock = {"free_element", "clear", "clear_after"}
    allowed_lock = {"get_free_element", "get_free_element_safe", "get_free_elements"}
    # a private helper that is called only by allowed methods belongs to them (an extracted acquire / release loop)
    callers = {}
    for name, fns in ms.items():
        for fn in fns:
            if not fn.get("body"):
                continue
            for x in C.walk_stmt(fn["body"]):
                if C.is_call(x) and (x.get("fn") or "").split("::")[0].startswith("ThreadSafeVector") and \
                        (x.get("obj") is None or C.strip_casts(x["obj"]).get("k") == "This"):
                    callers.setdefault(x["n"], set()).add(name)
    changed = True
    while changed:
        changed = False
        for name, fns in ms.items():
            if all(fn.get("access") == "private" for fn in fns) and callers.get(name):
                for allowed in (allowed_lock, allowed_unlock):
                    if name not in allowed and callers[name] <= allowed:
                        allowed.add(name)
                        changed = True
    helper_acquirers = [nm for nm in allowed_lock if nm not in ("get_free_element", "get_free_element_safe",
                                                                "get_free_elements")]
    # a private helper that flips no flag itself (one that only steps the probe cursor) is not an acquirer: it is read in
    # place, inside the methods that call it
    def _locks_something(fn_):
        return any(C.is_call(x) and x.get("n") in ("lock", "unlock") and x.get("obj") is not None
                   for x in C.walk_stmt(fn_["body"]))
    plain_helpers = [nm for nm in helper_acquirers if not any(_locks_something(f_) for f_ in ms.get(nm, []) if f_.get("body"))]
    helper_acquirers = [nm for nm in helper_acquirers if nm not in plain_helpers]
    inline_from = [f_ for nm in plain_helpers for f_ in ms.get(nm, []) if f_.get("body")]
    sites = 0
    for name, fns in ms.items():
        for fn in fns:
            for x in C.walk_stmt(fn["body"]):
                if C.is_call(x) and x.get("n") in ("lock", "unlock") and x.get("obj") is not None:
                    from ..grammar import lv_key, key_root_member
                    if key_root_member(lv_key(x["obj"])) == "_locks":
                        sites += 1
                        okk = name in (allowed_lock if x["n"] == "lock" else allowed_unlock)
                        if not okk:
                            chk.fail("V2", "%s flips a slot flag" % fn["full"], where(x, fn),
                                     "%s() of a slot's in-use flag outside %s: a slot can be handed to two owners "
                                     "or leak" % (x["n"], sorted(allowed_lock if x["n"] == "lock" else allowed_unlock)),
                                     function=fn["full"], construct="%s flag %s" % (name, x["n"]))
    chk.ok("V2", "slot flags are flipped only by the acquire/release methods (%d sites)" % sites,
           "src/ThreadSafeVector.hpp")
    chk.floor("V2", sites, 6)
    # V1 / V3 on the acquiring methods
    for name in helper_acquirers + ["get_free_element", "get_free_element_safe"]:
        for fn in ms.get(name, []):
            if not fn.get("body"):
                continue
            chk.analysed(function=fn["full"])
            if inline_from:
                fn = C.with_inlined_helpers(fn, [f_ for f_ in inline_from if f_.get("cls") == fn.get("cls")])
            g = C.CFG(fn)
            idx_vars = set()

            def helper_call(e):
                e = C.strip_casts(e)
                return e is not None and C.is_call(e) and e.get("n") in helper_acquirers and \
                    (e.get("obj") is None or C.strip_casts(e["obj"]).get("k") == "This")

            def lock_target(e):
                e = C.strip_casts(e)
                if C.is_call(e, name="lock") and e.get("obj") is not None:
                    o = C.strip_casts(e["obj"])
                    if o.get("k") in ("Idx",) and C.member_name(o["a"]) == "_locks":
                        return C.ref_key(o["i"])
                    if C.is_call(o) and o.get("op") == "[]" and C.member_name(o.get("obj")) == "_locks":
                        return C.ref_key(o["a"][0])
                return None

            # the outcome of a lock attempt kept in a bool first: `acquired = _locks[index].lock(); ... while (!acquired)`
            flag_locks = {}
            for s_ in C.walk_stmt(fn["body"]):
                if s_.get("k") == "Bin" and s_.get("op") == "=" and lock_target(s_["b"]) is not None and C.ref_key(s_["a"]):
                    flag_locks[C.ref_key(s_["a"])] = lock_target(s_["b"])
                if s_.get("k") == "Decl":
                    for d_ in s_["d"]:
                        if d_.get("init") is not None and lock_target(d_["init"]) is not None:
                            flag_locks[("local", d_["id"], d_["n"])] = lock_target(d_["init"])

            def tr(node, st):
                confirmed, counted = st
                if node.kind == "branch":
                    t = lock_target(node.ast)
                    if t is None and C.strip_casts(node.ast).get("k") == "Ref" and C.ref_key(node.ast) in flag_locks:
                        t = flag_locks[C.ref_key(node.ast)]
                    if t is not None:
                        return [(True, (t, counted)), (False, (None, counted))]
                if node.kind in ("stmt", "decl", "return") and node.ast.get("k") != "Abort":
                    body = node.ast
                    wrapped = body if node.kind == "stmt" else ({"k": "Decl", "d": body["d"]} if node.kind == "decl" else
                                                                (body.get("x") or {"k": "Null"}))
                    for x in C.walk(wrapped):
                        if helper_call(x):
                            # a helper proven (V1 / V3 on the helper itself) to return a confirmed, counted slot
                            counted = min(3, counted + 1) if counted != 99 else 99
                            if node.kind == "return" and C.strip_casts(body.get("x")) is x:
                                confirmed = ("call",)
                            elif node.kind == "decl":
                                for d in body["d"]:
                                    if d.get("init") is not None and C.strip_casts(d["init"]) is x:
                                        confirmed = ("local", d["id"], d["n"])
                            elif x is not None and node.kind == "stmt" and body.get("k") == "Bin" and body["op"] == "=" and \
                                    C.strip_casts(body["b"]) is x:
                                confirmed = C.ref_key(body["a"])
                    if node.kind == "return":
                        return [(None, (confirmed, counted))]
                    for x in C.walk(wrapped):
                        if x.get("k") == "Bin" and x["op"] in ("=", "+=", "-=") and C.ref_key(x["a"]) == confirmed and \
                                not helper_call(x["b"]):
                            confirmed = None
                        if x.get("k") == "Un" and x["op"] in ("pre++", "post++", "pre--", "post--") and \
                                C.ref_key(x["x"]) == confirmed:
                            confirmed = None
                        if C.is_call(x, cls="AtomicValue") and C.member_name(x.get("obj")) == "_number_taken":
                            if x.get("n") in ("pre_increment", "post_increment"):
                                counted = min(3, counted + 1)
                            elif x.get("n") in ("pre_decrement",):
                                counted = max(-3, counted - 1)
                            elif x.get("n") in ("set", "pre_add", "post_add", "pre_subtract", "max"):
                                counted = 99     # not a +-1 read-modify-write: reported below
                return [(None, (confirmed, counted))]
            ex = C.explore(g, (None, 0), tr)
            # the branch that tests the counter may itself be the increment (reserve-first idiom)
            for node in g.nodes:
                if node.kind != "return" or not node.ast.get("x"):
                    continue
                rv = C.strip_casts(node.ast["x"])
                sentinel = C.member_name(rv) == "_size"
                for st in ex.at.get(node.id, ()):
                    n += 1
                    if sentinel:
                        chk.require(st[1] == 0, "V3", "%s: the 'full' path does not count a slot" % fn["full"],
                                    where(node.ast, fn), "on the path that hands out no slot the occupancy counter "
                                    "changes by %s" % ("a non-atomic set()/add: a concurrent free_element() update "
                                                       "is lost" if st[1] == 99 else "%+d" % st[1]),
                                    function=fn["full"], construct="sentinel path count")
                    else:
                        st_after = st
                        if helper_call(rv):
                            st_after = (("call",), min(3, st[1] + 1) if st[1] != 99 else 99)
                        st = st_after
                        chk.require(st[0] is not None and (st[0] == C.ref_key(rv) or (st[0] == ("call",) and helper_call(rv))),
                                    "V1",
                                    "%s returns an index whose flag it has won" % fn["full"], where(node.ast, fn),
                                    "the returned index is not confirmed by a successful _locks[index].lock() "
                                    "(path through lines %s): two requesters can receive the same slot" %
                                    ex.path_lines(node.id, st), function=fn["full"], construct="confirmed index")
                        n += 1
                        chk.require(st[1] == 1, "V3", "%s counts the slot exactly once" % fn["full"],
                                    where(node.ast, fn), "occupancy counter incremented %d times on a hand-out path"
                                    % st[1], function=fn["full"], construct="hand-out count")
    for fn in ms.get("free_element", []):
        chk.analysed(function=fn["full"])
        rel = [x for x in C.walk_stmt(fn["body"]) if C.is_call(x, name="unlock")]
        dec = [x for x in C.walk_stmt(fn["body"]) if C.member_name(x.get("obj")) == "_number_taken" and
               (C.is_call(x, name="pre_decrement") or C.is_call(x, name="post_decrement") or
                ((C.is_call(x, name="pre_subtract") or C.is_call(x, name="post_subtract")) and x.get("a") and
                 C.const_int(x["a"][0]) == 1))]
        seen_dec = []
        for x in dec:
            if not any(x is y for y in seen_dec):
                seen_dec.append(x)
        dec = seen_dec
        branches = [s for s in C.walk_stmt(fn["body"]) if s.get("k") in ("If", "For", "While")]
        n += 1
        chk.require(len(rel) == 1 and len(dec) == 1 and not branches, "V3",
                    "%s releases one flag and decrements the occupancy once" % fn["full"], where(fn),
                    "free_element performs %d flag releases and %d decrements (conditional: %s)" %
                    (len(rel), len(dec), bool(branches)), function=fn["full"], construct="release pairing")
    chk.floor("V1/V3", n, 8)
    # V5: every slot index the pool computes itself is inside the pool (c08_range.py)
    from . import c08_range
    n5 = c08_range.rule_V5(chk, [d_ for fns_ in ms.values() for d_ in fns_])
    chk.floor("V5", n5, 2)


# ------------------------------------------------------------------------------------------
PROTECTED = ("_queue", "_current_queue_size")
UNLOCKED_OK = {"size": "unlocked read used only as a work-stealing heuristic (Scheduler / steal_task)",
               "get_memory_size": "reads only the constant capacity"}


def check_task_queue(chk, lib):
    fns = [d for d in lib.decls if d["kind"] == "function" and d.get("clsq") == "TaskQueue"
           and not d.get("ctor") and not d.get("dtor") and d.get("body")]
    if len(fns) < 5:
        raise AnalysisBroken("TaskQueue methods not found")
    byname = {}
    for fn in fns:
        byname.setdefault(fn["full"].split("(")[0], fn)
    n = 0

    def lock_event(e):
        e = C.strip_casts(e)
        if C.is_call(e) and C.member_name(e.get("obj")) == "_queue_lock":
            return e.get("n")
        return None

    # scoped lock guards: a class holding a ThreadLock& whose constructor locks it and whose destructor unlocks it
    guards = set()
    for rec in lib.decls:
        if rec["kind"] != "record":
            continue
        refs = [f["n"] for f in rec.get("fields", []) if "ThreadLock" in (f.get("t") or "") and (f.get("t") or "").rstrip().endswith("&")]
        if len(refs) != 1:
            continue
        ms2 = [m for m in lib.methods_of(rec["qname"]) if m.get("body")]
        ct = [m for m in ms2 if m.get("ctor") and not m.get("copyctor")]
        dt = [m for m in ms2 if m.get("dtor")]

        def only_call(m, name):
            calls = [x for x in C.walk_stmt(m["body"]) if C.is_call(x) and C.member_name(x.get("obj")) == refs[0]]
            calls = [x for i2, x in enumerate(calls) if not any(x is y for y in calls[:i2])]
            return len(calls) == 1 and calls[0].get("n") == name
        if len(ct) == 1 and len(dt) == 1 and only_call(ct[0], "lock") and only_call(dt[0], "unlock") and \
                any(ini.get("member") == refs[0] for ini in ct[0].get("inits", [])):
            guards.add(rec["qname"])

    def guard_decl(node, fn):
        """A top-level `Guard g(_queue_lock);` declaration: the lock is held from here to the end of the function."""
        if node.kind != "decl":
            return False
        for d in node.ast["d"]:
            init = C.strip_casts(d["init"]) if d.get("init") is not None else None
            if init is not None and init.get("k") == "Ctor" and (init.get("cls") or "") in guards and init.get("a") and \
                    C.member_name(init["a"][0]) == "_queue_lock":
                top = fn["body"]["s"]
                if not any(s2.get("k") == "Decl" and any(dd is d for dd in s2["d"]) for s2 in top):
                    raise AnalysisBroken("%s: a lock guard declared in an inner scope (line %s) is not modelled" %
                                         (fn["full"], d.get("l")))
                return True
        return False

    def helper_calls(body):
        """Calls to other TaskQueue methods on this object (implicit or explicit this)."""
        out = []
        for x in C.walk(body):
            if x.get("k") == "Call" and (x.get("fn") or "").startswith("TaskQueue::") and \
                    (x.get("obj") is None or C.strip_casts(x["obj"]).get("k") == "This"):
                out.append(x)
        return out

    # helpers: TaskQueue methods that other TaskQueue methods call on the same object
    called = set()
    for fn in fns:
        for s2 in C.walk_stmt(fn["body"]):
            if s2.get("k") in ("Block", "If", "For", "While", "Do", "ForRange", "Switch"):
                continue
            bodies = [d["init"] for d in s2["d"] if d.get("init") is not None] if s2.get("k") == "Decl" else [s2]
            for b2 in bodies:
                for x in helper_calls(b2):
                    called.add(x["fn"])
    helpers = {fn["full"]: fn for fn in fns if fn["full"].split("(")[0] in called and fn.get("access") == "private"}
    if not helpers:
        helpers = {fn["full"]: fn for fn in fns if fn["full"].split("(")[0] in called and
                   not any(lock_event(x) for s2 in C.walk_stmt(fn["body"]) for x in
                           (C.walk(s2) if s2.get("k") not in ("Block", "If", "For", "While", "Do", "ForRange", "Switch", "Decl")
                            else ()))}
    touches = {}      # helper qname -> touches protected state (directly)
    for hq, h in helpers.items():
        touches[hq.split("(")[0]] = any(x.get("k") == "Mem" and x.get("n") in PROTECTED and
                                        C.strip_casts(x["b"]).get("k") == "This"
                                        for s2 in C.walk_stmt(h["body"]) for x in
                                        (C.walk(s2) if s2.get("k") not in ("Block", "If", "For", "While", "Do", "ForRange",
                                                                          "Switch", "Decl")
                                         else [y for d in s2.get("d", []) if d.get("init") is not None for y in C.walk(d["init"])]))
    entry_states = {hq: set() for hq in helpers}

    def analyse(fn, init_states, is_helper):
        nonlocal n
        g = C.CFG(fn)

        def node_body(node):
            if node.ast is None or node.kind == "marker" or node.ast.get("k") in ("Abort", "RangeHasNext"):
                return None
            return node.ast if node.kind != "decl" else {"k": "Decl", "d": node.ast["d"]}

        def accesses(node):
            body = node_body(node)
            if body is None:
                return []
            acc = [x for x in C.walk(body) if x.get("k") == "Mem" and x.get("n") in PROTECTED and
                   C.strip_casts(x["b"]).get("k") == "This"]
            for x in helper_calls(body):
                if touches.get(x["fn"]):
                    acc.append({"k": "Mem", "n": "%s()" % x["fn"].split("::")[-1], "l": x.get("l")})
            return acc
        bad = []

        guarded = [False]

        def tr(node, st):
            held = st
            if node.kind == "branch":
                ev = lock_event(node.ast)
                if ev == "try_lock":
                    return [(True, True), (False, held)]
            if guard_decl(node, fn):
                if held:
                    bad.append(("double lock", node.ast))
                guarded[0] = True
                return [(None, True)]
            if node.kind in ("stmt", "decl", "return", "branch") and node.ast.get("k") not in ("Abort",):
                body = node.ast if node.kind != "decl" else {"k": "Decl", "d": node.ast["d"]}
                for x in C.walk(body):
                    ev = lock_event(x)
                    if ev == "lock":
                        if held:
                            bad.append(("double lock", x))
                        held = True
                    elif ev == "unlock":
                        if not held:
                            bad.append(("unlock without holding the lock", x))
                        held = False
                for x in helper_calls(body):
                    for hq in helpers:
                        if hq.split("(")[0] == x["fn"]:
                            entry_states[hq].add(held)
            return [(None, held)]
        exits = set()
        for st0 in sorted(init_states):
            ex = C.explore(g, st0, tr)
            for node in g.nodes:
                acc = accesses(node)
                if not acc:
                    continue
                for st in ex.at.get(node.id, ()):
                    n += 1
                    chk.require(st is True, "Q1", "%s touches %s with the queue lock held (line %s)" %
                                (fn["full"], sorted({a["n"] for a in acc}), node.line()), where(acc[0], fn),
                                "queue state is accessed on a path (lines %s) on which _queue_lock is not held%s" %
                                (ex.path_lines(node.id, st), " (the helper is entered without the lock from one of its callers)"
                                 if is_helper else ""), function=fn["full"],
                                construct="unlocked access %s" % sorted({a["n"] for a in acc})[0])
            ends = set(ex.at.get(g.exit.id, ()))
            if guarded[0]:
                # the guard's destructor releases the lock when the function returns
                ends = {False if e2 is True else e2 for e2 in ends}
            n += 1
            want = {st0} if is_helper else {False}
            chk.require((ends or want) == want and not bad, "Q2",
                        ("%s leaves the queue lock as it found it" if is_helper else
                         "%s releases the queue lock exactly once on every path") % fn["full"], where(fn),
                        "lock state at exit %s; protocol errors: %s" % (sorted(ends), [b2[0] for b2 in bad]),
                        function=fn["full"], construct="queue lock release")

    for fn in fns:
        chk.analysed(function=fn["full"])
        if fn["full"] in helpers:
            continue
        if fn["name"] in UNLOCKED_OK:
            chk.ok("Q1", "%s is exempt: %s" % (fn["full"], UNLOCKED_OK[fn["name"]]), where(fn))
            continue
        analyse(fn, {False}, False)
    for hq, h in helpers.items():
        if not entry_states[hq]:
            entry_states[hq].add(False)
        analyse(h, entry_states[hq], True)
    # Q3 (hand-out) used to be a path rule of its own (check_handout below, kept for reference); it fired on a
    # behaviour-preserving rewrite of the search loop (refactorings/g71/patch_02) and is now decided in the zone analysis that
    # C12-M7 and Q4 share (c12_bounds.py): confirmed position = handed-out position, live range shrinks by exactly one.
    chk.floor("Q", n, 18)


def check_handout(chk, fn, helpers=None):
    """Q3: the index returned was confirmed by lock_dependency() and leaves the live range."""
    def has_confirm(f):
        return any(C.is_call(x, name="lock_dependency") for s2 in C.walk_stmt(f["body"]) for x in
                   (C.walk(s2) if s2.get("k") not in ("Block", "If", "For", "While", "Do", "ForRange", "Switch", "Decl")
                    else [y for d in s2.get("d", []) if d.get("init") is not None for y in C.walk(d["init"])]))
    if not has_confirm(fn) and helpers:
        # the scan lives in a helper: the function must hand out exactly what the helper returns
        g0 = C.CFG(fn)
        rets0 = [nd for nd in g0.nodes if nd.kind == "return"]
        srcs = []
        for s2 in C.walk_stmt(fn["body"]):
            exprs = [(d, d["init"]) for d in s2["d"] if d.get("init") is not None] if s2.get("k") == "Decl" else \
                ([(None, s2)] if s2.get("k") in ("Bin", "Return") else [])
            for d, e2 in exprs:
                for x in C.walk(e2 if e2.get("k") != "Return" else (e2.get("x") or {})):
                    if x.get("k") == "Call" and any(hq.split("(")[0] == x.get("fn") for hq in helpers):
                        srcs.append((d, e2, x))
        hs = {x["fn"] for _, _, x in srcs}
        if len(hs) != 1 or not rets0:
            raise AnalysisBroken("%s: neither scans the queue itself nor returns the result of one helper" % fn["full"])
        helper = [h for hq, h in helpers.items() if hq.split("(")[0] == list(hs)[0]][0]
        holders = set()
        for d, e2, x in srcs:
            if d is not None:
                holders.add(("local", d["id"], d["n"]))
            elif e2.get("k") == "Bin" and e2["op"] == "=":
                holders.add(C.ref_key(e2["a"]))
        # other assignments to the holder variables: only constants (the NO_TASK initial value)
        okf = True
        why = ""
        for s2 in C.walk_stmt(fn["body"]):
            if s2.get("k") == "Bin" and s2["op"] == "=" and C.ref_key(s2["a"]) in holders:
                r0 = C.strip_casts(s2["b"])
                if not (any(y is x for _, _, x in srcs for y in C.walk(s2["b"])) or C.const_int(r0) is not None):
                    okf = False
                    why = "`%s` is also assigned `%s`" % (C.pretty(s2["a"]), C.pretty(r0))
        for r in rets0:
            e3 = C.strip_casts(r.ast.get("x"))
            if e3 is None:
                continue
            if C.const_int(e3) is not None or C.ref_key(e3) in holders or any(e3 is x for _, _, x in srcs):
                continue
            okf = False
            why = "a return hands out `%s`" % C.pretty(e3)
        chk.require(okf, "Q3", "%s hands out exactly what %s returned (or the no-task constant)" % (fn["full"], helper["name"]),
                    where(fn), why or "the value returned is not the helper's result", function=fn["full"],
                    construct="hand-out via helper")
        return 1 + check_handout(chk, helper, None)
    g = C.CFG(fn)
    ret_nodes = [nd for nd in g.nodes if nd.kind == "return"]
    if len(ret_nodes) != 1:
        raise AnalysisBroken("%s: expected a single return" % fn["full"])
    rv = C.ref_key(ret_nodes[0].ast["x"])

    def queue_elem_offset(e):
        """For an expression _queue[index + k]: (index var key, k)."""
        e = C.strip_casts(e)
        if e.get("k") == "Idx" and C.member_name(e["a"]) == "_queue":
            i = C.strip_casts(e["i"])
            if i.get("k") == "Ref":
                return C.ref_key(i), 0
            if i.get("k") == "Bin" and i["op"] in ("+", "-") and C.const_int(i["b"]) is not None:
                return C.ref_key(i["a"]), C.const_int(i["b"]) * (1 if i["op"] == "+" else -1)
        return None

    elem_alias = {}      # local id -> (index var key, offset): const local initialised from _queue[index + k]
    for s2 in C.walk_stmt(fn["body"]):
        if s2.get("k") == "Decl":
            for d in s2["d"]:
                if d.get("init") is not None and queue_elem_offset(d["init"]) is not None and \
                        (d.get("t") or "").startswith("const "):
                    elem_alias[d["id"]] = queue_elem_offset(d["init"])

    def confirm_target(e):
        e = C.strip_casts(e)
        if C.is_call(e, name="lock_dependency", cls="Task") and e.get("obj") is not None:
            o = C.strip_casts(e["obj"])
            if C.is_call(o) and o.get("op") == "[]" and o["a"]:
                a0 = C.strip_casts(o["a"][0])
                if a0.get("k") == "Ref" and a0.get("id") in elem_alias:
                    return ("alias", a0["id"])
                return queue_elem_offset(o["a"][0])
        return None

    def tr(node, st):
        conf, handed, removed, memo = st    # conf: (index var, offset) with locked dependencies
        if node.kind == "decl" and conf and conf[0] == "alias" and not handed and \
                any(d["id"] == conf[1] for d in node.ast["d"]):
            conf = None          # the alias is re-declared: it names another queue element now
            st = (conf, handed, removed, memo)
        # a boolean local that receives the result of lock_dependency(): fork on the outcome, remember it in the memo
        if node.kind in ("stmt", "decl") and node.ast.get("k") != "Abort":
            pairs = []
            if node.kind == "decl":
                pairs = [(("local", d["id"], d["n"]), d["init"]) for d in node.ast["d"] if d.get("init") is not None]
            elif node.ast.get("k") == "Bin" and node.ast["op"] == "=":
                pairs = [(C.ref_key(node.ast["a"]), node.ast["b"])]
            for tgt, rhs in pairs:
                r0 = C.strip_casts(rhs)
                if r0.get("k") == "Bool" and tgt is not None and tgt[0] == "local":
                    m = dict((k, v) for k, v in memo if k != tgt[2])
                    m[tgt[2]] = bool(r0["v"])
                    memo = tuple(sorted(m.items()))
                    st = (conf, handed, removed, memo)
                    continue
                t = confirm_target(rhs)
                if t is not None and tgt is not None and tgt[0] == "local":
                    key = tgt[2]
                    m = dict((k, v) for k, v in memo if k != key)
                    mt, mf = dict(m), dict(m)
                    mt[key], mf[key] = True, False
                    return [(None, (t, handed, removed, tuple(sorted(mt.items())))),
                            (None, (None, handed, removed, tuple(sorted(mf.items()))))]
        if node.kind == "branch":
            e0 = C.strip_casts(node.ast)
            if e0.get("k") == "Ref" and e0.get("n") in dict(memo) and isinstance(dict(memo)[e0["n"]], bool):
                return [(dict(memo)[e0["n"]], st)]
            if e0.get("k") == "Ref" and (e0.get("t") or "").replace("const ", "") == "bool" and "id" in e0:
                # a flag initialised from a literal: remember its value once tested
                pass
        # memo: outcome of the last evaluation of a comparison whose variables did not change since
        # (the loop exit test `index > 0` and the following `if (index > 0)` are the same predicate)
        def pack(conf, handed, removed, memo):
            return (conf, handed, removed, memo)
        if node.kind == "branch":
            t = confirm_target(node.ast)
            if t is not None:
                return [(True, pack(t, handed, removed, memo)), (False, pack(None, handed, removed, memo))]
            e = C.strip_casts(node.ast)
            if e.get("k") == "Bin" and e["op"] in ("<", ">", "<=", ">=", "==", "!="):
                key = C.pretty(e)
                known = dict(memo).get(key)
                outs = []
                for val in (True, False):
                    if known is None or known == val:
                        m2 = dict(memo)
                        m2[key] = val
                        outs.append((val, pack(conf, handed, removed, tuple(sorted(m2.items())))))
                return outs
        if node.kind in ("stmt", "decl") and node.ast.get("k") != "Abort":
            body0 = node.ast if node.kind == "stmt" else {"k": "Decl", "d": node.ast["d"]}
            written = set()
            for x in C.walk(body0):
                if x.get("k") == "Un" and x["op"] in ("pre--", "post--", "pre++", "post++"):
                    written.add(C.pretty(C.strip_casts(x["x"])))
                if x.get("k") == "Bin" and x["op"] in ("=", "+=", "-="):
                    written.add(C.pretty(C.strip_casts(x["a"])))
            if written:
                memo = tuple((k, v) for k, v in memo if not any(w in k for w in written))
        if node.kind in ("stmt", "decl") and node.ast.get("k") != "Abort":
            body = node.ast if node.kind == "stmt" else {"k": "Decl", "d": node.ast["d"]}
            for x in C.walk(body):
                if x.get("k") == "Un" and x["op"] in ("pre--", "post--", "pre++", "post++"):
                    kk = C.ref_key(x["x"])
                    if conf and conf[0] != "alias" and kk == conf[0] and not handed:
                        conf = (conf[0], conf[1] + (1 if "--" in x["op"] else -1))
                    elif conf and conf[0] == "alias" and not handed and kk == elem_alias[conf[1]][0]:
                        # the index moved: the alias was taken at the old position and stays the confirmed element only
                        # until it is re-declared (next iteration)
                        pass
                    if C.member_name(x["x"]) == "_current_queue_size" and "--" in x["op"]:
                        removed = min(2, removed + 1)
                if x.get("k") == "Bin" and x["op"] == "=":
                    if C.ref_key(x["a"]) == rv:
                        t = queue_elem_offset(x["b"])
                        b0 = C.strip_casts(x["b"])
                        if b0.get("k") == "Ref" and b0.get("id") in elem_alias:
                            t = ("alias", b0["id"])
                        if t is not None and conf is not None and t == conf:
                            handed = "ok"
                        else:
                            handed = "unconfirmed"
                    elif conf and C.ref_key(x["a"]) == conf[0] and not handed:
                        conf = None
        return [(None, (conf, handed, removed, memo))]
    ex = C.explore(g, (None, False, 0, ()), tr)
    n = 0
    for st in ex.at.get(ret_nodes[0].id, ()):
        n += 1
        conf, handed, removed, _memo = st
        okk = (handed is False and removed == 0) or (handed == "ok" and removed == 1)
        chk.require(okk, "Q3", "%s hands out only a task whose dependencies it locked, and removes it" % fn["full"],
                    where(ret_nodes[0].ast, fn),
                    "on the path through lines %s the returned index is %s and the live range shrinks %d time(s)" %
                    (ex.path_lines(ret_nodes[0].id, st),
                     {False: "the NO_TASK initial value", "ok": "confirmed", "unconfirmed": "NOT confirmed by "
                      "lock_dependency()"}[handed], removed), function=fn["full"], construct="hand-out")
    # initial value is NO_TASK
    return n


# ------------------------------------------------------------------------------------------
def check_lock_dependency(chk, lib):
    fns = {d["name"]: d for d in lib.decls if d["kind"] == "function" and d.get("clsq") == "Task"}
    for need in ("lock_dependency", "unlock_dependency"):
        if need not in fns:
            raise AnalysisBroken("Task::%s not found" % need)
    n = 0
    fn = fns["lock_dependency"]
    chk.analysed(function=fn["full"])
    g = C.CFG(fn)

    # local pointer aliases of the dependencies: ThreadLock *const first = _dependency[0];
    alias = {}
    for s2 in C.walk_stmt(fn["body"]):
        if s2.get("k") == "Decl":
            for d in s2["d"]:
                i0 = C.strip_casts(d["init"]) if d.get("init") is not None else None
                if i0 is not None and i0.get("k") == "Idx" and C.member_name(i0["a"]) == "_dependency" and \
                        C.const_int(i0["i"]) is not None:
                    alias[d["id"]] = C.const_int(i0["i"])

    cur_iv = [{}]       # the small integer locals of the state being transferred (loop counters over the dependencies)

    def int_value(e):
        e = C.strip_casts(e)
        if e is None:
            return None
        ci = C.const_int(e)
        if ci is not None:
            return ci
        if e.get("k") == "Ref" and e.get("id") in cur_iv[0]:
            return cur_iv[0][e["id"]]
        if e.get("k") == "Bin" and e["op"] in ("+", "-"):
            a, b = int_value(e["a"]), int_value(e["b"])
            if a is not None and b is not None:
                return a + b if e["op"] == "+" else a - b
        return None

    def dep_index(e):
        e = C.strip_casts(e)
        if e is not None and e.get("k") == "Idx" and C.member_name(e["a"]) == "_dependency":
            return int_value(e["i"])
        if e is not None and e.get("k") == "Ref" and e.get("id") in alias:
            return alias[e["id"]]
        return None

    int_locals = set()
    for s2 in C.walk_stmt(fn["body"]):
        if s2.get("k") == "Decl":
            for d in s2["d"]:
                t = (d.get("t") or "").replace("const ", "").strip()
                if t in ("unsigned char", "unsigned int", "unsigned long", "int", "long", "unsigned short", "short", "signed char") \
                        and d["id"] not in alias:
                    int_locals.add(d["id"])

    def pack(nn, held, bv):
        bv = dict(bv)
        for k_, v_ in cur_iv[0].items():
            bv[("int", k_)] = v_
        return (tuple(sorted(nn.items())), tuple(sorted(held.items())), tuple(sorted(bv.items(), key=repr)))

    def trylock_of(e):
        e = C.strip_casts(e)
        if e is not None and C.is_call(e, name="try_lock") and e.get("obj") is not None:
            return dep_index(e["obj"])
        return None

    def tr(node, st):
        nn, held, bv = dict(st[0]), dict(st[1]), dict(st[2])
        cur_iv[0] = {k_[1]: v_ for k_, v_ in bv.items() if isinstance(k_, tuple) and k_[0] == "int"}
        bv = {k_: v_ for k_, v_ in bv.items() if not (isinstance(k_, tuple) and k_[0] == "int")}
        # integer locals: counters over the (two) dependencies, evaluated concretely
        if node.kind in ("decl", "stmt") and node.ast is not None and node.ast.get("k") != "Abort":
            if node.kind == "decl":
                for d in node.ast["d"]:
                    if d["id"] in int_locals:
                        v_ = int_value(d.get("init")) if d.get("init") is not None else None
                        if v_ is None:
                            cur_iv[0].pop(d["id"], None)
                        else:
                            cur_iv[0][d["id"]] = v_
            else:
                for x in C.walk(node.ast):
                    if x.get("k") == "Un" and x.get("op") in ("pre++", "post++", "pre--", "post--"):
                        r_ = C.strip_casts(x["x"])
                        if r_.get("k") == "Ref" and r_.get("id") in cur_iv[0]:
                            cur_iv[0][r_["id"]] += 1 if "++" in x["op"] else -1
                            if abs(cur_iv[0][r_["id"]]) > 8:
                                raise AnalysisBroken("Task::lock_dependency: a counter over the dependencies runs away")
                    elif x.get("k") == "Bin" and x.get("op") == "=" and C.strip_casts(x["a"]).get("id") in int_locals:
                        v_ = int_value(x["b"])
                        if v_ is None:
                            cur_iv[0].pop(C.strip_casts(x["a"])["id"], None)
                        else:
                            cur_iv[0][C.strip_casts(x["a"])["id"]] = v_
        if node.kind == "branch":
            e = C.strip_casts(node.ast)
            if e.get("k") == "Bin" and e["op"] in ("<", ">", "<=", ">=", "==", "!="):
                a_, b_ = int_value(e["a"]), int_value(e["b"])
                if a_ is not None and b_ is not None and C.strip_casts(e["b"]).get("k") != "Null" and \
                        C.strip_casts(e["a"]).get("k") != "Null":
                    t_ = {"<": a_ < b_, ">": a_ > b_, "<=": a_ <= b_, ">=": a_ >= b_, "==": a_ == b_, "!=": a_ != b_}[e["op"]]
                    return [(t_, pack(nn, held, bv))]
            if e.get("k") == "Bin" and e["op"] in ("!=", "=="):
                for p, q in ((e["a"], e["b"]), (e["b"], e["a"])):
                    i = dep_index(p)
                    if i is not None and C.strip_casts(q).get("k") == "Null":
                        t, f = dict(nn), dict(nn)
                        t[i] = (e["op"] == "!=")
                        f[i] = (e["op"] == "==")
                        outs = []
                        if nn.get(i) in (None, t[i]):
                            outs.append((True, pack(t, held, bv)))
                        if nn.get(i) in (None, f[i]):
                            outs.append((False, pack(f, held, bv)))
                        return outs
            i = trylock_of(e)
            if i is not None:
                t = dict(held)
                t[i] = True
                return [(True, pack(nn, t, bv)), (False, st)]
            if e.get("k") == "Ref" and e.get("id") in bv:
                return [(bv[e["id"]], st)]
            if e.get("k") == "Ref" and dep_index(e) is not None:
                i = dep_index(e)
                t, f = dict(nn), dict(nn)
                t[i], f[i] = True, False
                return [(True, pack(t, held, bv)), (False, pack(f, held, bv))]
        if node.kind == "decl":
            outs = [(nn, held, bv)]
            for d in node.ast["d"]:
                i = trylock_of(d.get("init")) if d.get("init") is not None else None
                if i is not None:
                    new = []
                    for nn1, held1, bv1 in outs:
                        h2, b2 = dict(held1), dict(bv1)
                        h2[i] = True
                        b2[d["id"]] = True
                        new.append((nn1, h2, b2))
                        b3 = dict(bv1)
                        b3[d["id"]] = False
                        new.append((nn1, dict(held1), b3))
                    outs = new
            return [(None, pack(a1, b1, c1)) for a1, b1, c1 in outs]
        if node.kind == "stmt" and node.ast.get("k") != "Abort":
            for x in C.walk(node.ast):
                if C.is_call(x, name="unlock") and x.get("obj") is not None:
                    i = dep_index(x["obj"])
                    if i is not None:
                        held[i] = False
                if C.is_call(x, name="lock") and x.get("obj") is not None and dep_index(x["obj"]) is not None:
                    held[dep_index(x["obj"])] = True
        return [(None, pack(nn, held, bv))]
    ex = C.explore(g, ((), (), ()), tr)
    for node in g.nodes:
        if node.kind != "return":
            continue
        rx = C.strip_casts(node.ast["x"])
        for st in ex.at.get(node.id, ()):
            nn, held, bv = dict(st[0]), dict(st[1]), dict(st[2])
            val = C.const_int(rx)
            if val is None and rx.get("k") == "Ref" and rx.get("id") in bv:
                val = int(bv[rx["id"]])
            if val is None and trylock_of(rx) is not None:
                # `return x->try_lock();`: both outcomes
                i = trylock_of(rx)
                h2 = dict(held)
                h2[i] = True
                cases = [(1, nn, h2), (0, nn, held)]
            else:
                cases = [(val, nn, held)]
            for val, nn, held in cases:
                n += 1
                if val == 1:
                    okk = all(held.get(i, False) for i in (0, 1) if nn.get(i) is True) and \
                        not (nn.get(0) is True and nn.get(1) is None)
                    chk.require(okk, "L1", "Task::lock_dependency returns true with every non-null dependency held",
                                where(node.ast, fn), "returns true with dependencies non-null=%s held=%s (path %s)" %
                                (nn, held, ex.path_lines(node.id, st)), function=fn["full"], construct="true lockset")
                elif val == 0:
                    okk = not any(held.values())
                    chk.require(okk, "L1", "Task::lock_dependency returns false holding nothing (rollback)",
                                where(node.ast, fn), "returns false while still holding %s (path %s): the subgrid stays "
                                "locked for ever" % ([i for i, h in held.items() if h], ex.path_lines(node.id, st)),
                                function=fn["full"], construct="false lockset")
                else:
                    chk.fail("L1", "Task::lock_dependency returns a value the lockset analysis can follow", where(node.ast, fn),
                             "return value `%s` is neither a literal, nor a try_lock() result, nor a flag holding one" %
                             C.pretty(rx), function=fn["full"], construct="return literal")
    fn = fns["unlock_dependency"]
    chk.analysed(function=fn["full"])
    g = C.CFG(fn)

    def tr2(node, st):
        nn, cnt = dict(st[0]), dict(st[1])
        if node.kind == "branch":
            e = C.strip_casts(node.ast)
            if e.get("k") == "Bin" and e["op"] in ("!=", "=="):
                for p, q in ((e["a"], e["b"]), (e["b"], e["a"])):
                    i = dep_index(p)
                    if i is not None and C.strip_casts(q).get("k") == "Null":
                        t, f = dict(nn), dict(nn)
                        t[i] = (e["op"] == "!=")
                        f[i] = (e["op"] == "==")
                        return [(True, (tuple(sorted(t.items())), st[1])), (False, (tuple(sorted(f.items())), st[1]))]
        if node.kind == "stmt" and node.ast.get("k") != "Abort":
            for x in C.walk(node.ast):
                if C.is_call(x, name="unlock") and x.get("obj") is not None:
                    i = dep_index(x["obj"])
                    if i is not None:
                        cnt[i] = cnt.get(i, 0) + 1
        return [(None, (tuple(sorted(nn.items())), tuple(sorted(cnt.items()))))]
    ex = C.explore(g, ((), ()), tr2)
    for st in ex.at.get(g.exit.id, ()):
        nn, cnt = dict(st[0]), dict(st[1])
        n += 1
        okk = all(cnt.get(i, 0) == (1 if nn.get(i) is True else 0) for i in (0, 1) if nn.get(i) is not None) and \
            all(cnt.get(i, 0) <= 1 for i in (0, 1))
        okk = okk and not (nn.get(0) is True and nn.get(1) is None and cnt.get(1, 0) == 0 and False)
        chk.require(okk, "L1", "Task::unlock_dependency releases exactly the non-null dependencies", where(fn),
                    "with non-null=%s the releases are %s" % (nn, cnt), function=fn["full"],
                    construct="unlock lockset")
    chk.floor("L1", n, 5)


def check_memory_space(chk, lib):
    fns = [d for d in lib.decls if d["kind"] == "function" and d.get("clsq") == "MemorySpace"
           and d["name"] == "add_photons"]
    if not fns:
        raise AnalysisBroken("MemorySpace::add_photons not found")
    fn = fns[0]
    chk.analysed(function=fn["full"])
    n = 0
    body = list(C.walk_stmt(fn["body"]))
    gets = [x for x in body if C.is_call(x, name="get_free_buffer")]
    n += 1
    chk.require(len(gets) == 1, "M1", "add_photons acquires at most one overflow buffer", where(fn),
                "%d get_free_buffer calls" % len(gets), function=fn["full"], construct="overflow acquisition")
    # the new buffer inherits subgrid index and direction of the full one
    tags = {}
    for x in body:
        if C.is_call(x) and x.get("n") in ("set_subgrid_index", "set_direction") and x["a"]:
            a = C.strip_casts(x["a"][0])
            tags[x["n"]] = a.get("n") if C.is_call(a) else None
    n += 1
    chk.require(tags.get("set_subgrid_index") == "get_subgrid_index" and tags.get("set_direction") == "get_direction",
                "M1", "the overflow buffer inherits the subgrid index and the direction of the full buffer", where(fn),
                "tags copied: %s" % tags, function=fn["full"], construct="overflow tags")
    # both copy loops advance one shared source counter by exactly one per copied packet and stop at size_in
    loops = [s for s in body if s.get("k") in ("While", "For") and
             any(C.is_call(x) and x.get("op") == "[]" for x in C.walk_stmt(s["body"]))]
    n += 1
    okk = len(loops) == 2
    counter = None
    detail = "expected two copy loops, found %d" % len(loops)
    if okk:
        for lp in loops:
            where_inc = list(C.walk_stmt(lp["body"])) + (list(C.walk_stmt(lp["inc"])) if lp.get("k") == "For" and
                                                          lp.get("inc") is not None else [])
            incs = [x for x in where_inc if x.get("k") == "Un" and x["op"] in ("pre++", "post++")]
            incs = [x for i2, x in enumerate(incs) if not any(x is y for y in incs[:i2])]
            keys = {C.ref_key(x["x"]) for x in incs}
            if len(incs) != 1:
                okk = False
                detail = "a copy loop advances its counter %d times per packet" % len(incs)
                break
            if counter is None:
                counter = keys
            elif counter != keys:
                okk = False
                detail = "the two copy loops use different source counters: packets are copied twice or skipped"
            cnd_refs = {C.ref_key(x) for x in C.walk(lp["c"]) if x.get("k") == "Ref"}
            if not (keys & cnd_refs):
                okk = False
                detail = "loop condition does not bound the source counter"
            # the packet read is buffer[counter]
            reads = [x for x in C.walk_stmt(lp["body"]) if C.is_call(x) and x.get("op") == "[]" and x["a"] and
                     C.ref_key(C.strip_casts(x["a"][0])) in keys]
            if not reads:
                okk = False
                detail = "a copy loop does not read the packet at the source counter"
    chk.require(okk, "M1", "every packet of the source buffer is copied exactly once (one shared monotone counter)",
                where(fn), detail, function=fn["full"], construct="copy counter")
    # what is returned: the input index while no overflow buffer was taken, the overflow buffer's index afterwards
    g = C.CFG(fn)
    in_idx = ("local", fn["params"][0]["id"], fn["params"][0]["n"])

    def tr(node, st):
        new = st
        if node.kind in ("stmt", "decl") and node.ast.get("k") != "Abort":
            pairs = []
            if node.kind == "decl":
                pairs = [(("local", d["id"], d["n"]), d["init"]) for d in node.ast["d"] if d.get("init") is not None]
            elif node.ast.get("k") == "Bin" and node.ast["op"] == "=":
                pairs = [(C.ref_key(node.ast["a"]), node.ast["b"])]
            for tgt, rhs in pairs:
                r0 = C.strip_casts(rhs)
                if C.is_call(r0, name="get_free_buffer"):
                    new = ("new", tgt)
                elif st == ("old", None) and C.ref_key(r0) == in_idx and tgt is not None:
                    new = ("old", tgt)
                elif st[0] == "old" and st[1] is not None and tgt == st[1] and C.ref_key(r0) != in_idx:
                    new = ("lost", None)
        return [(None, new)]
    ex = C.explore(g, ("old", None), tr)
    okr = True
    detr = ""
    nret = 0
    for node in g.nodes:
        if node.kind != "return" or node.ast.get("x") is None:
            continue
        nret += 1
        rk = C.ref_key(node.ast["x"])
        for st in ex.at.get(node.id, ()):
            if st[0] == "new" and rk != st[1]:
                okr = False
                detr = "after taking an overflow buffer the function returns `%s`, not the new buffer's index" % \
                    C.pretty(node.ast["x"])
            if st[0] == "old" and rk not in (in_idx, st[1]):
                okr = False
                detr = "without an overflow the function returns `%s`, not the input index" % C.pretty(node.ast["x"])
            if st[0] == "lost":
                okr = False
                detr = "the index variable is overwritten by something else"
    n += 1
    chk.require(okr and nret >= 1, "M1", "add_photons returns the input index, or the overflow buffer's index once one was taken",
                where(fn), detr or "no return", function=fn["full"], construct="single exit")
    chk.floor("M1", n, 4)


def run(chk, prog):
    chk.explanation = (
        "Per-operation safety facts of the shared containers, decided on every instantiation found in the library: "
        "single atomic access with the right result in every AtomicValue method; ThreadLock as a thin test-and-set "
        "wrapper; pool indices returned only after winning their flag, flags flipped only by acquire/release, occupancy "
        "paired with hand-out; queue state touched only under the queue lock, which is released once on every path; a "
        "task index handed out only after lock_dependency() succeeded on exactly that entry and after removal from the "
        "live range; two-lock acquisition with rollback; overflow copy with one shared counter. Safety properties of "
        "this kind compose from per-operation facts, so they hold for every interleaving given the C++ memory model.")
    chk.assumptions += ["std::atomic read-modify-write operations are atomic and sequentially consistent (C++11)",
                        "the gap-closing shift in TaskQueue::get_task preserves the other entries (array-content loop "
                        "invariant, not decided)",
                        "an extra dependency is only ever set together with a primary one (checked by C07-G5)"]
    lib = prog.library()
    for name in prog.all_unit_names():
        chk.analysed(unit=name)
    check_atomic_value(chk, lib)
    check_thread_lock(chk, lib)
    chk.floor("A3", check_atomic_wrappers(chk, lib), 5)
    check_thread_safe_vector(chk, lib)
    from .c12 import rule_M5_pool_reset
    n = len(chk.obligations)
    rule_M5_pool_reset(chk, lib)
    for o in chk.obligations[n:]:
        o["rule"] = "V4"
    chk.floors = [(("V4" if r == "M5" else r), c, m) for r, c, m in chk.floors]
    check_task_queue(chk, lib)
    check_lock_dependency(chk, lib)
    # Q4: the handed-out position does not stay in the live range (zone analysis shared with C12-M7)
    from ..report import Check
    from .c12_bounds import rule_M7
    before_q4 = len(chk.obligations)
    rule_M7(Check("C12", "embedded", "other"), lib, gap_chk=chk, gap_rule="Q4")
    chk.floor("Q3+Q4", len(chk.obligations) - before_q4, 2)
    check_memory_space(chk, lib)


def check_atomic_wrappers(chk, lib, rule="A3", classes=("Task",)):
    """A method that exposes an atomic counter of its class stays ONE atomic operation: on every path it performs exactly
    one call on the AtomicValue member and, if it returns a value, it returns the result of that very call (a
    decrement followed by a separate read is two operations: two threads can both read 0)."""
    n = 0
    for clsq in classes:
        rec = lib.record(clsq)
        atomics = {f["n"] for f in rec["fields"] if (f.get("t") or "").startswith("AtomicValue<")}
        if not atomics:
            raise AnalysisBroken("%s has no AtomicValue member any more" % clsq)
        for m in lib.methods_of(clsq):
            if not m.get("body") or m.get("ctor") or m.get("dtor"):
                continue
            g = C.CFG(m)
            touched = set()

            def atomic_calls(node, m=m):
                out = []
                asts = []
                if node.ast is not None and node.kind not in ("marker",) and node.ast.get("k") not in ("Abort", "RangeHasNext"):
                    if node.kind == "decl":
                        asts = [d["init"] for d in node.ast["d"] if d.get("init") is not None]
                    elif node.kind == "return":
                        asts = [node.ast["x"]] if node.ast.get("x") else []
                    elif node.kind == "init":
                        asts = [node.ast["x"]] if node.ast.get("x") else []
                    else:
                        asts = [node.ast]
                for a in asts:
                    for x in C.walk(a):
                        if x.get("k") == "Call" and x.get("obj") is not None and not x.get("mac") and \
                                C.member_name(x["obj"]) in atomics:
                            out.append(x)
                return out
            per_node = {nd.id: atomic_calls(nd) for nd in g.nodes}
            if not any(per_node.values()):
                continue
            if m.get("name", "").startswith("operator"):
                continue
            for calls in per_node.values():
                for x in calls:
                    touched.add(C.member_name(x["obj"]))

            def tr(node, st):
                return [(None, min(st + len(per_node[node.id]), 3))]
            ex = C.explore(g, 0, tr)
            counts = set(ex.at.get(g.exit.id, ()))
            n += 1
            okc = counts == {1}
            chk.require(okc, rule, "%s::%s performs exactly one operation on its atomic counter on every path" %
                        (clsq, m["name"]), where(m), "numbers of atomic operations on %s along the paths of this method: %s "
                        "(two operations are not one atomic step: another thread can run in between)" %
                        (sorted(touched), sorted(counts)), function=m["full"], construct="%s single op" % m["name"])
            rets = [nd for nd in g.nodes if nd.kind == "return" and nd.ast.get("x") is not None]
            if rets and okc:
                for r in rets:
                    e = C.strip_casts(r.ast["x"])
                    n += 1
                    direct = e.get("k") == "Call" and e.get("obj") is not None and C.member_name(e["obj"]) in atomics
                    chk.require(direct, rule, "%s::%s returns the result of that single atomic operation" % (clsq, m["name"]),
                                where(r.ast, m), "the returned value `%s` is not the result of the atomic operation itself" %
                                C.pretty(e), function=m["full"], construct="%s returns op" % m["name"])
    return n
