"""C20-K8: the snapshot writer stores every cell of a block.

GadgetDensityGridWriter gathers the cells of a grid in blocks into per-field buffers and hands each buffer to
HDF5Tools::append_dataset, which writes `buffer.size()` elements at the block's offset.  "A snapshot read back reproduces
each cell" needs, at every append_dataset call, the size of the buffer to be the number of cells gathered for the block
that is being written: a smaller buffer leaves cells at the HDF5 fill value, a larger one overwrites the next block.

Forward dataflow over the structured body of every writer function, per buffer (a vector local, or the element vectors of
a vector-of-vectors local):

  * the *size term* of a buffer is set by its construction (`std::vector<T>(E)`, as the element prototype of the outer
    constructor as well) and by `resize(E)` / `assign(E, ..)` - a strong update when the call covers every element
    (a loop over the whole outer vector) or the buffer itself, a weak one otherwise; both arms of an `if` are joined;
  * terms are normalised through const locals (`thisblocksize` -> `upper_limit - offset` -> ...); at the head of a loop
    every term that mentions a local declared inside that loop is *stale* (it names the previous iteration's value);
  * the *count term* of the block is read from the gather loop - the loop in the same block iteration that stores into the
    buffer: `for (it = X + A; it != X + B; ++it)` or `for (i = A; i < B; ++i)` gives B - A;
  * at every append_dataset call the set of size terms must be exactly {count term}.

Which values are gathered, and the offsets, are not decided here (the names and types are K4's).
"""
from .. import cfg as C
from ..astdb import AnalysisBroken, where


def _vector_t(t):
    return "vector" in (t or "")


def rule_K8(chk, lib):
    fns = [d for d in lib.decls if d["kind"] == "function" and d.get("body") is not None and not d.get("dependent") and
           d.get("cls") == "GadgetDensityGridWriter" and
           any(C.is_call(x, name="append_dataset") for x in C.walk_stmt(d["body"]))]
    seen = set()
    n = 0
    nf = 0
    for fn in fns:
        key = (fn["full"], fn.get("line"))
        if key in seen:
            continue
        seen.add(key)
        nf += 1
        chk.analysed(function=fn["full"])
        n += analyse(chk, fn)
    return n, nf


def analyse(chk, fn):
    decls = {}
    for s in C.walk_stmt(fn["body"]):
        ds = []
        if s.get("k") == "Decl":
            ds = s["d"]
        elif s.get("k") == "For" and s.get("init") is not None and s["init"].get("k") == "Decl":
            ds = s["init"]["d"]
        for d in ds:
            decls[d["id"]] = d

    # fields of local aggregates that are assigned exactly once (`block.size = block.last - block.first;`)
    field_rhs = {}
    field_count = {}
    for s_ in C.walk_stmt(fn["body"]):
        if s_.get("k") == "Bin" and s_.get("op") == "=":
            a_ = C.strip_casts(s_["a"])
            if a_.get("k") == "Mem" and C.strip_casts(a_["b"]).get("k") == "Ref" and "id" in C.strip_casts(a_["b"]):
                key_ = (C.strip_casts(a_["b"])["id"], a_.get("n"))
                field_count[key_] = field_count.get(key_, 0) + 1
                field_rhs[key_] = s_["b"]
        if s_.get("k") == "Bin" and s_.get("op") in ("+=", "-=", "*=", "/="):
            a_ = C.strip_casts(s_["a"])
            if a_.get("k") == "Mem" and C.strip_casts(a_["b"]).get("k") == "Ref" and "id" in C.strip_casts(a_["b"]):
                key_ = (C.strip_casts(a_["b"])["id"], a_.get("n"))
                field_count[key_] = field_count.get(key_, 0) + 2

    def norm(e, depth=0, ids=None):
        """(text, ids of the locals mentioned at any level) with const locals replaced by their initialisers"""
        ids = set() if ids is None else ids
        e = C.strip_casts(e)
        k = e.get("k")
        if k == "Mem" and C.strip_casts(e["b"]).get("k") == "Ref" and "id" in C.strip_casts(e["b"]):
            b_ = C.strip_casts(e["b"])
            ids.add(b_["id"])
            key_ = (b_["id"], e.get("n"))
            if field_count.get(key_) == 1 and depth < 8:
                return norm(field_rhs[key_], depth + 1, ids)[0], ids
            return "%s#%s.%s" % (b_.get("n"), b_["id"], e.get("n")), ids
        if k == "Ref" and "id" in e:
            ids.add(e["id"])
            d = decls.get(e["id"])
            if d is not None and d.get("init") is not None and "const" in (d.get("t") or "") and depth < 8 and \
                    not _vector_t(d.get("t")):
                return norm(d["init"], depth + 1, ids)[0], ids
            return "%s#%s" % (e.get("n"), e["id"]), ids
        if k in ("Int", "Float"):
            return str(e.get("v")), ids
        if k == "Bin":
            return "(%s %s %s)" % (norm(e["a"], depth + 1, ids)[0], e["op"], norm(e["b"], depth + 1, ids)[0]), ids
        if k == "Call":
            args = ",".join(norm(a, depth + 1, ids)[0] for a in e.get("a", []))
            obj = norm(e["obj"], depth + 1, ids)[0] + "." if e.get("obj") is not None else ""
            return "%s%s(%s)" % (obj, (e.get("fn") or e.get("n") or "?").split("::")[-1], args), ids
        if k == "Ctor" and len(e.get("a", [])) == 1:
            return norm(e["a"][0], depth + 1, ids)
        if k == "Un":
            return "%s(%s)" % (e.get("op"), norm(e["x"], depth + 1, ids)[0]), ids
        return C.pretty(e), ids

    import re as _re
    import sympy as _sp
    _atoms = {}

    def to_sym(text):
        """sympy value of a normalised term text: integers, + - *, min / max, everything else an atom"""
        text = text.strip()
        # tokenise with a small recursive-descent parser over the fully parenthesised text norm() produces
        pos = [0]

        def atom_for(t):
            if t not in _atoms:
                _atoms[t] = _sp.Symbol("k%d" % len(_atoms), integer=True, nonnegative=True)
            return _atoms[t]

        def parse():
            # returns a sympy expr for the element starting at pos
            if text[pos[0]] == "(":
                depth, i = 0, pos[0]
                # find the top-level operator inside the parentheses
                j = i + 1
                depth = 0
                op_at = None
                while j < len(text):
                    c = text[j]
                    if c == "(":
                        depth += 1
                    elif c == ")":
                        if depth == 0:
                            break
                        depth -= 1
                    elif depth == 0 and c in "+-*/%" and text[j - 1] == " " and j + 1 < len(text) and text[j + 1] == " " and op_at is None:
                        op_at = j
                    j += 1
                inner = text[i + 1:j]
                pos[0] = j + 1
                if op_at is None:
                    return to_sym(inner)
                a, b, op = text[i + 1:op_at - 1], text[op_at + 2:j], text[op_at]
                if op in "+-*":
                    x, y = to_sym(a), to_sym(b)
                    return x + y if op == "+" else (x - y if op == "-" else x * y)
                return atom_for(text[i:j + 1])
            return None
        if text.startswith("(") and text.endswith(")"):
            # only if the outer parentheses match each other
            depth = 0
            ok = True
            for i, c in enumerate(text):
                if c == "(":
                    depth += 1
                elif c == ")":
                    depth -= 1
                    if depth == 0 and i != len(text) - 1:
                        ok = False
                        break
            if ok:
                pos[0] = 0
                r = parse()
                if r is not None:
                    return r
        m = _re.match(r"^(?:std::)?(min|max)\((.*)\)$", text)
        if m:
            inner = m.group(2)
            depth = 0
            for i, c in enumerate(inner):
                if c == "(":
                    depth += 1
                elif c == ")":
                    depth -= 1
                elif c == "," and depth == 0:
                    x, y = to_sym(inner[:i]), to_sym(inner[i + 1:])
                    return _sp.Min(x, y) if m.group(1) == "min" else _sp.Max(x, y)
        if _re.match(r"^\d+$", text):
            return _sp.Integer(int(text))
        return atom_for(text)

    def same_term(a, b):
        if a == b:
            return True
        try:
            return _sp.simplify(to_sym(a) - to_sym(b)) == 0
        except Exception:
            return False

    def term(e):
        t, ids = norm(e)
        return (t, frozenset(ids))

    def buffer_root(e):
        """(root local id, is element of the outer vector) of the buffer expression handed to append_dataset / resized"""
        e = C.strip_casts(e)
        elem = False
        while True:
            if e.get("k") == "Call" and e.get("op") == "[]" and e.get("obj") is not None:
                e = C.strip_casts(e["obj"])
                elem = True
                continue
            if e.get("k") == "Idx":
                e = C.strip_casts(e["a"])
                elem = True
                continue
            break
        if e.get("k") == "Ref" and e.get("id") in decls and _vector_t(decls[e["id"]].get("t")):
            return e["id"], elem
        return None, False

    def ctor_size(d):
        """size term of the buffers a vector declaration creates: (term, buffers are the elements?)"""
        i0 = C.strip_casts(d["init"]) if d.get("init") is not None else None
        while i0 is not None and i0.get("k") == "Ctor" and len(i0.get("a", [])) == 1 and \
                C.strip_casts(i0["a"][0]).get("k") == "Ctor":
            i0 = C.strip_casts(i0["a"][0])
        if i0 is None or i0.get("k") != "Ctor" or not i0.get("a"):
            return None
        t = d.get("t") or ""
        nested = t.count("vector") >= 2
        if nested:
            if len(i0["a"]) < 2:
                return None
            proto = C.strip_casts(i0["a"][1])
            while proto.get("k") == "Ctor" and len(proto.get("a", [])) == 1 and C.strip_casts(proto["a"][0]).get("k") == "Ctor":
                proto = C.strip_casts(proto["a"][0])
            if proto.get("k") == "Ctor" and proto.get("a"):
                return term(proto["a"][0])
            return None
        return term(i0["a"][0])

    def declared_in(s):
        out = set()
        for x in C.walk_stmt(s):
            if x.get("k") == "Decl":
                out |= {d["id"] for d in x["d"]}
            if x.get("k") == "For" and x.get("init") is not None and x["init"].get("k") == "Decl":
                out |= {d["id"] for d in x["init"]["d"]}
        return out

    def whole_loop_over(loop, root):
        """the loop runs over every element of the outer vector `root`: i = 0; i < root.size(); ++i"""
        c = C.strip_casts(loop.get("c")) if loop.get("c") is not None else None
        if c is None or c.get("k") != "Bin" or c.get("op") not in ("<", "!="):
            return None
        b = C.strip_casts(c["b"])
        if b.get("k") == "Call" and b.get("n") == "size" and b.get("obj") is not None and \
                C.strip_casts(b["obj"]).get("id") == root:
            a = C.strip_casts(c["a"])
            if a.get("k") == "Ref":
                return a.get("id")
        return None

    def whole_resize(loop):
        body = loop.get("body")
        stmts_ = body["s"] if body is not None and body.get("k") == "Block" else ([body] if body is not None else [])
        stmts_ = [x for x in stmts_ if x.get("k") != "Null"]
        if len(stmts_) != 1:
            return None
        x = C.strip_casts(stmts_[0])
        if not (C.is_call(x) and x.get("n") in ("resize", "assign") and x.get("obj") is not None and x.get("a")):
            return None
        root, elem = buffer_root(x["obj"])
        if root is None or not elem:
            return None
        ivar = whole_loop_over(loop, root)
        o = C.strip_casts(x["obj"])
        sub = C.strip_casts(o["a"][0]) if (o.get("k") == "Call" and o.get("a")) else (C.strip_casts(o["i"]) if o.get("k") == "Idx" else None)
        if ivar is None or sub is None or sub.get("id") != ivar:
            return None
        return root, x["a"][0]

    results = []          # (append call, root, sizes at the call, count term or None)
    STALE = "stale"

    def gather_count(block_stmts, root):
        """count term of the loop in this statement list that stores into the buffers of `root`"""
        for s in block_stmts:
            if s.get("k") != "For":
                continue
            # the gather loop of a buffer: it stores into an element `root[..][J]` and it is the loop that steps J (its own
            # counter, or a counter stepped at the top level of its body)
            stepped = set()
            ini0 = s["init"]["d"] if s.get("init") is not None and s["init"].get("k") == "Decl" else []
            for st_ in ([s["inc"]] if isinstance(s.get("inc"), dict) else []) + \
                    (s["body"]["s"] if s.get("body") is not None and s["body"].get("k") == "Block" else []):
                if st_.get("k") in ("For", "While", "Do", "If", "Block"):
                    continue
                for y in C.walk(st_):
                    if y.get("k") == "Un" and y.get("op") in ("pre++", "post++"):
                        stepped.add(C.strip_casts(y["x"]).get("id"))
                    if y.get("k") == "Bin" and y.get("op") == "+=":
                        stepped.add(C.strip_casts(y["a"]).get("id"))
            stores = False
            for x in C.walk_stmt(s["body"]):
                lhs = None
                if x.get("k") == "Bin" and x.get("op") == "=":
                    lhs = x["a"]
                if x.get("k") == "Call" and x.get("op") == "=" and x.get("obj") is not None:
                    lhs = x["obj"]
                if lhs is None:
                    continue
                r, el = buffer_root(lhs)
                if r != root:
                    continue
                l0 = C.strip_casts(lhs)
                jx = None
                if l0.get("k") == "Call" and l0.get("op") == "[]" and l0.get("a"):
                    jx = C.strip_casts(l0["a"][0])
                elif l0.get("k") == "Idx":
                    jx = C.strip_casts(l0["i"])
                if jx is not None and jx.get("k") == "Ref" and (jx.get("id") in stepped or
                                                                 jx.get("id") in {d_["id"] for d_ in ini0}):
                    stores = True
            if not stores:
                continue
            c = C.strip_casts(s["c"]) if s.get("c") is not None else None
            ini = s["init"]["d"][0] if s.get("init") is not None and s["init"].get("k") == "Decl" else None
            if c is not None and c.get("k") == "Call" and c.get("op") in ("<", "!=") and c.get("obj") is not None and c.get("a"):
                c = {"k": "Bin", "op": c["op"], "a": c["obj"], "b": c["a"][0]}       # an overloaded comparison of iterators
            if c is None or ini is None or ini.get("init") is None or c.get("k") != "Bin" or c.get("op") not in ("<", "!="):
                return None

            def split(e, depth=0):
                e = C.strip_casts(e)
                while e.get("k") == "Ctor" and len(e.get("a", [])) == 1:
                    e = C.strip_casts(e["a"][0])
                if e.get("k") == "Ref" and e.get("id") in decls and depth < 4:
                    d_ = decls[e["id"]]
                    if d_.get("init") is not None and "const" in (d_.get("t") or "") and "iterator" in (d_.get("t") or "").lower():
                        return split(d_["init"], depth + 1)
                if e.get("k") == "Call" and e.get("op") == "+" and e.get("a"):
                    args = ([e["obj"]] if e.get("obj") is not None else []) + list(e["a"])
                    if len(args) == 2:
                        return norm(args[0])[0], args[1]
                if e.get("k") == "Bin" and e.get("op") == "+" and _vector_t("") is False and \
                        "iterator" in (C.strip_casts(e["a"]).get("t") or ""):
                    return norm(e["a"])[0], e["b"]
                return None, e
            ba, A = split(ini["init"])
            bb, B = split(c["b"])
            if ba != bb:
                return None
            ta, tb = term(A), term(B)
            return ("(%s - %s)" % (tb[0], ta[0]), ta[1] | tb[1])
        return None

    def process(stmts, state, count_ctx):
        """state: root id -> frozenset of size terms; count_ctx: root -> count term in the enclosing block iteration"""
        count_ctx = dict(count_ctx)
        for rid, d_ in decls.items():
            if _vector_t(d_.get("t")):
                g_ = gather_count(stmts, rid)
                if g_ is not None:
                    count_ctx[rid] = g_
        for idx, s in enumerate(stmts):
            k = s.get("k")
            if k == "Block":
                if s.get("mac"):
                    continue
                cc = dict(count_ctx)
                state = process(s["s"], state, cc)
            elif k == "Decl":
                for d in s["d"]:
                    if _vector_t(d.get("t")) and d.get("init") is not None:
                        cs = ctor_size(d)
                        if cs is not None:
                            state = dict(state)
                            state[d["id"]] = frozenset([cs])
            elif k == "If" and C.strip_casts(s["c"]).get("k") == "Bool":
                arm = s["th"] if C.strip_casts(s["c"])["v"] else s.get("el")
                if arm is not None:
                    state = process([arm], dict(state), count_ctx)
            elif k == "If":
                s1 = process([s["th"]], dict(state), count_ctx)
                s2 = process([s["el"]], dict(state), count_ctx) if s.get("el") is not None else dict(state)
                state = {r: s1.get(r, frozenset()) | s2.get(r, frozenset()) for r in set(s1) | set(s2)}
            elif k == "For" and whole_resize(s) is not None:
                # `for (i = 0; i < V.size(); ++i) V[i].resize(E);` sizes every buffer of V
                root_, e_ = whole_resize(s)
                state = dict(state)
                state[root_] = frozenset([term(e_)])
            elif k in ("For", "While", "Do", "RangeFor"):
                inner = declared_in(s)
                # a resize of every element of an outer vector
                wl = whole_loop_over(s, None) if False else None
                body = s.get("body")
                cur = dict(state)
                for _ in range(4):
                    body_in = dict(cur)
                    body_stmts = body["s"] if body is not None and body.get("k") == "Block" else ([body] if body else [])
                    cc = dict(count_ctx)
                    for root in list(cur):
                        g_ = gather_count(body_stmts, root)
                        if g_ is not None:
                            cc[root] = g_
                    out = process(body_stmts, body_in, cc, ) if True else None
                    # strong update for `for (i..root.size()) root[i].resize(E)`
                    for root in list(out):
                        ivar = whole_loop_over(s, root)
                        if ivar is not None:
                            rs = [x for x in C.walk_stmt(body) if C.is_call(x) and x.get("n") in ("resize", "assign") and
                                  x.get("obj") is not None and buffer_root(x["obj"])[0] == root and x.get("a")]
                            top = [x for x in body_stmts if C.is_call(C.strip_casts(x)) and C.strip_casts(x).get("n") in ("resize", "assign")]
                            if len(rs) == 1 and len(top) >= 1:
                                out[root] = frozenset([term(rs[0]["a"][0])])
                    # what the next iteration (and the code after the loop) sees: terms over locals of this loop are stale
                    nxt = {}
                    for r in set(cur) | set(out):
                        ts = set(state.get(r, frozenset()))
                        for t in out.get(r, frozenset()):
                            ts.add((STALE, frozenset()) if (t[1] & inner) else t)
                        nxt[r] = frozenset(ts)
                    if nxt == cur:
                        break
                    cur = nxt
                state = cur
            else:
                # expression statements: resize / assign and append_dataset calls
                for x in C.walk(s) if k not in ("Return", "Null", "Break", "Continue") else ():
                    if C.is_call(x) and x.get("n") in ("resize", "assign") and x.get("obj") is not None and x.get("a"):
                        root, elem = buffer_root(x["obj"])
                        if root is not None and root in state:
                            nested = (decls[root].get("t") or "").count("vector") >= 2
                            if nested == elem:
                                t = term(x["a"][0])
                                state = dict(state)
                                state[root] = (state[root] | frozenset([t])) if elem else frozenset([t])
                    if C.is_call(x, name="append_dataset") and x.get("a"):
                        root, elem = buffer_root(x["a"][-1])
                        if root is None:
                            raise AnalysisBroken("%s: the buffer `%s` handed to append_dataset is not a vector local" %
                                                 (fn["full"], C.pretty(x["a"][-1])[:50]))
                        results.append((x, root, state.get(root, frozenset()), count_ctx.get(root)))
        return state

    process(fn["body"]["s"], {}, {})
    n = 0
    by_root = {}
    for x, root, sizes, cnt in results:
        by_root.setdefault(root, []).append((x, sizes, cnt))
    if not results:
        raise AnalysisBroken("%s: no append_dataset call analysed" % fn["full"])
    for root, lst in sorted(by_root.items()):
        name = decls[root]["n"]
        for x, sizes, cnt in lst:
            n += 1
            if cnt is None:
                raise AnalysisBroken("%s: the loop that gathers the cells into `%s` was not recognised" % (fn["full"], name))
            texts = sorted(t[0] for t in sizes)
            okk = bool(sizes) and all(same_term(t[0], cnt[0]) for t in sizes)
            chk.require(okk, "K8", "%s line %s: the buffer `%s` written by append_dataset holds exactly the cells gathered for "
                        "this block" % (fn["name"], x.get("l"), name), where(x, fn),
                        "the block gathers %s cells, the buffer can have size %s when it is written (`stale` = sized for a "
                        "previous block): append_dataset stores size() elements, so cells of the block are left at the fill value "
                        "or the next block is overwritten" % (cnt[0][:80], [t[:60] for t in texts]), function=fn["full"],
                        construct="block buffer size %s" % name)
    return n
