"""C01 - every photon packet launched in an iteration terminates exactly once; nothing left behind.

Decides the resource and accounting discipline of the task bodies and of the worker loops (DESIGN.md
C01); each rule is per task execution, hence holds under every schedule:
 R1 every task slot taken (get_free_element) is published exactly once on every path;
 R2 every photon buffer taken is used (attached / activated / freed) and the input buffer of a traversal
    task is freed on every path; a re-emission task re-attaches or frees its input buffer;
 R3 a buffer read from / registered as the active buffer of a direction is detached (another buffer or
    NEIGHBOUR_OUTSIDE registered for that direction) on every path on which it is attached to a new task;
 R4 the done-counter is advanced exactly once per traversal / re-emission task by
    (size of the input buffer) - (sizes of the buffers in which packets were stored for later work);
 R5 worker loop: unlock once, free the executed slot (unless task plotting), publish every returned task,
    and clear the run flag only when no buffer is in flight and done == requested;
 R6 source tasks: the batch size put in the task is the amount added to the launched counter;
 R7 external sources: the remaining-counter is decremented after the task's packets are stored, the flush is
    created once (remaining == 0 and an atomic once-flag), every flush / source task holds its block's lock;
 R8 DistributedPhotonSource::get_photon_batch updates its counter under the source's lock, bounded by the total;
 R10 (c01_budget.py) the packet budgets of the source types add up to the request on every set-up path;
 R11 (c01_lock.py) every traversal task depends on the lock of the subgrid whose index it stores.
Not decided: schedule-dependent quiescence detection (the run flag is a plain bool) and the arithmetic of
the per-source split.
"""
import sympy as sp

from .. import cfg as C
from ..astdb import AnalysisBroken, where

CONTEXTS = ("PhotonTraversalTaskContext", "PhotonReemitTaskContext", "SourceDiscretePhotonTaskContext",
            "SourceContinuousPhotonTaskContext", "FlushContinuousPhotonBuffersTaskContext",
            "PrematureLaunchTaskContext")


def node_asts(node):
    if node.ast is None or node.kind == "marker" or node.ast.get("k") in ("Abort", "RangeHasNext"):
        return []
    if node.kind == "decl":
        return [d["init"] for d in node.ast["d"] if d.get("init") is not None]
    if node.kind == "init":
        return [node.ast["x"]] if node.ast.get("x") else []
    return [node.ast]


def calls_in(node, pred):
    out = []
    for a in node_asts(node):
        out += [x for x in C.walk(a) if pred(x)]
    return out


def acquisition_decls(g, name):
    """(node, decl) for `x = <obj>.<name>()` declarations."""
    out = []
    for nd in g.nodes:
        if nd.kind == "decl":
            for d in nd.ast["d"]:
                if d.get("init") is not None and C.is_call(C.strip_casts(d["init"]), name=name):
                    out.append((nd, d))
    return out


def uses_var(ast, key):
    return any(C.ref_key(x) == key for x in C.walk(ast) if x.get("k") == "Ref")


def rule_R1(chk, fn, label, only_types=None):
    """Slot publication: get_free_element() results are published exactly once."""
    g = C.CFG(fn)
    n = 0
    for nd, d in acquisition_decls(g, "get_free_element"):
        key = ("local", d["id"], d["n"])
        if only_types is not None:
            # in the drivers only the slots that become radiation tasks are subject to the rule (the drivers
            # also take bookkeeping slots for the task plot, which are cleared wholesale)
            typed = False
            for x in C.walk_stmt(fn["body"]):
                if C.is_call(x, name="set_type", cls="Task") and x["a"] and \
                        (C.strip_casts(x["a"][0]).get("n") or "").startswith(only_types):
                    o = C.strip_casts(x.get("obj"))
                    if o is not None and any(C.ref_key(y) == key for y in C.walk(o)):
                        typed = True
            if not typed:
                continue

        def publishes(node):
            for a in node_asts(node):
                for x in C.walk(a):
                    if C.is_call(x) and x.get("n") in ("add_task",) and x["a"] and C.ref_key(x["a"][0]) == key:
                        return True
                    if x.get("k") == "Bin" and x["op"] == "=" and C.ref_key(x["b"]) == key:
                        t = C.strip_casts(x["a"])
                        if t.get("k") == "Idx" and (C.strip_casts(t["a"]).get("n") or "").startswith("tasks_to_add"):
                            return True
            return False

        def tr(node, st):
            if node is nd:
                return [(None, 0)]
            if st is None:
                return [(None, None)]
            if publishes(node):
                return [(None, min(2, st + 1))]
            return [(None, st)]
        ex = C.explore(g, None, tr)
        ends = set(ex.at.get(g.exit.id, set())) | set(s for s in ex.at.get(nd.id, set()) if s is not None)
        ends.discard(None)
        n += 1
        chk.require(ends == {1}, "R1", "%s: task slot `%s` (line %s) is published exactly once on every path" %
                    (label, d["n"], d["l"]), where(d, fn),
                    "the slot is published %s times before the function ends / the next slot is taken: a slot that is "
                    "taken and dropped stays occupied for ever, one published twice runs twice" % sorted(ends),
                    function=fn["full"], construct="slot %s publication" % d["n"])
    return n


def rule_R2(chk, fn, label):
    g = C.CFG(fn)
    n = 0
    for nd, d in acquisition_decls(g, "get_free_buffer"):
        key = ("local", d["id"], d["n"])
        sinks = ("set_buffer", "set_active_buffer", "free_buffer", "add_photons")

        def used(node):
            return bool(calls_in(node, lambda x: C.is_call(x) and x.get("n") in sinks and
                                 any(C.ref_key(a) == key for a in x["a"])))
        un = {x.id for x in g.nodes if used(x)}
        n += 1
        chk.require(bool(un) and g.all_paths_pass(nd.id, un) or (bool(un) and nd.id in un), "R2",
                    "%s: photon buffer `%s` (line %s) is attached, activated or freed on every path" %
                    (label, d["n"], d["l"]), where(d, fn),
                    "a path from the acquisition to the end of the task neither attaches the buffer to a task, nor "
                    "registers it as active buffer, nor frees it: the buffer (and its packets) is left behind",
                    function=fn["full"], construct="buffer %s use" % d["n"])
    # buffers assigned (not declared) from get_free_buffer: new_index = get_free_buffer()
    for node in g.nodes:
        if node.kind == "stmt" and node.ast.get("k") == "Bin" and node.ast["op"] == "=" and \
                C.is_call(C.strip_casts(node.ast["b"]), name="get_free_buffer"):
            key = C.ref_key(node.ast["a"])
            sinks = ("set_buffer", "set_active_buffer", "free_buffer", "add_photons")
            un = {x.id for x in g.nodes if calls_in(x, lambda y: C.is_call(y) and y.get("n") in sinks and
                                                    any(C.ref_key(a) == key for a in y["a"]))}
            n += 1
            chk.require(bool(un) and g.all_paths_pass(node.id, un), "R2",
                        "%s: photon buffer `%s` (line %s) is attached, activated or freed on every path" %
                        (label, key[2] if key else "?", node.line()), where(node.ast, fn),
                        "the freshly taken buffer can be dropped", function=fn["full"],
                        construct="buffer %s use" % (key[2] if key else "?"))
    return n


def rule_R3(chk, fn, label):
    """Detach-on-launch: a buffer index read from get_active_buffer(d) (or registered by set_active_buffer(d, v)) that
    is attached to a new task is, before the variable dies, replaced as active buffer of d by something else."""
    g = C.CFG(fn)
    n = 0
    for nd, d in acquisition_decls(g, "get_active_buffer"):
        key = ("local", d["id"], d["n"])
        dirarg = C.pretty(C.strip_casts(d["init"])["a"][0])
        attaches = [x for node in g.nodes for x in calls_in(node, lambda y: C.is_call(y, name="set_buffer", cls="Task")
                                                            and y["a"] and C.ref_key(y["a"][0]) == key)]
        if not attaches:
            continue        # read-only use (largest-buffer bookkeeping)

        def tr(node, st, key=key, dirarg=dirarg, nd=nd):
            active, attached = st
            if node.id == nd.id:
                return [(None, (True, False))]
            for x in calls_in(node, lambda y: C.is_call(y)):
                if x.get("n") == "set_active_buffer" and len(x["a"]) == 2 and C.pretty(x["a"][0]) == dirarg:
                    active = C.ref_key(x["a"][1]) == key
                elif x.get("n") == "set_buffer" and x.get("cls", "").startswith("Task") and x["a"] and \
                        C.ref_key(x["a"][0]) == key:
                    attached = True
            return [(None, (active, attached))]
        ex = C.explore(g, (False, False), tr)
        ends = set(ex.at.get(nd.id, set())) | set(ex.at.get(g.exit.id, set()))
        bad = [st for st in ends if st[0] and st[1]]
        n += 1
        where_bad = ""
        if bad:
            tgt = nd.id if bad[0] in ex.at.get(nd.id, set()) else g.exit.id
            where_bad = " (path through lines %s)" % ex.path_lines(tgt, bad[0])
        chk.require(not bad, "R3", "%s: buffer `%s` (active buffer of direction %s, line %s) is detached before it is "
                    "launched as a task" % (label, d["n"], dirarg, d["l"]), where(d, fn),
                    "the buffer is attached to a new task while it is still registered as the active buffer of direction "
                    "%s%s: later packets are appended to a buffer that is already being processed / the buffer is launched "
                    "twice" % (dirarg, where_bad), function=fn["full"], construct="detach %s" % d["n"])
    return n


def input_buffer_var(fn):
    for s in C.walk_stmt(fn["body"]):
        if s.get("k") == "Decl":
            for d in s["d"]:
                if d.get("init") is not None and C.is_call(C.strip_casts(d["init"]), name="get_buffer", cls="Task"):
                    return d
    return None


def rule_R2_input(chk, fn, label, reattach_ok):
    g = C.CFG(fn)
    d = input_buffer_var(fn)
    if d is None:
        raise AnalysisBroken("%s: input buffer (task.get_buffer()) not found" % fn["full"])
    key = ("local", d["id"], d["n"])
    free = {x.id for x in g.nodes if calls_in(x, lambda y: C.is_call(y, name="free_buffer") and
                                              y["a"] and C.ref_key(y["a"][0]) == key)}
    attach = {x.id for x in g.nodes if calls_in(x, lambda y: C.is_call(y, name="set_buffer", cls="Task") and
                                                y["a"] and C.ref_key(y["a"][0]) == key)}
    sinks = free | (attach if reattach_ok else set())
    okk = bool(free) and g.all_paths_pass(g.entry.id, sinks)
    # never both on one path
    both = False
    if reattach_ok:
        for a in attach:
            if free & g.reachable(a):
                both = True
        for f in free:
            if attach & g.reachable(f):
                both = True
    chk.require(okk and not both, "R2", "%s: the input buffer is %s on every path" %
                (label, "re-attached to one new task or freed" if reattach_ok else "freed"), where(d, fn),
                "a path through the task %s" % ("both re-attaches and frees the input buffer" if both else
                                                 "neither frees the input buffer nor hands it on: it stays allocated and "
                                                 "the iteration can never see the memory space empty"),
                function=fn["full"], construct="input buffer release")
    return 1


def rule_R4(chk, fn, label):
    """done += size(input buffer) - sum size(buffers holding packets stored for later)."""
    g = C.CFG(fn)
    adds = [x for nd in g.nodes for x in calls_in(nd, lambda y: C.is_call(y, name="pre_add", cls="AtomicValue"))]
    n = 0
    n += 1
    if len(adds) != 1:
        chk.fail("R4", "%s: the done-counter is advanced exactly once" % label, where(fn),
                 "%d pre_add calls on the shared done-counter" % len(adds), function=fn["full"],
                 construct="done counter update")
        return n
    add = adds[0]
    an = [nd for nd in g.nodes if any(y is add for a in node_asts(nd) for y in C.walk(a))][0]
    chk.require(g.all_paths_pass(g.entry.id, {an.id}) and an.id not in g.reachable(an.id) - {an.id} or
                g.all_paths_pass(g.entry.id, {an.id}), "R4",
                "%s: the done-counter is advanced exactly once on every path" % label, where(add, fn),
                "a path through the task skips the update of the done-counter: packets are lost from the count and the "
                "iteration never ends", function=fn["full"], construct="done counter update")
    var = C.ref_key(add["a"][0])
    n += 1
    if var is None:
        chk.fail("R4", "%s: the amount added is a local accumulator" % label, where(add, fn),
                 "pre_add argument is %s" % C.pretty(add["a"][0]), function=fn["full"], construct="done amount")
        return n
    defs = []
    for nd in g.nodes:
        for a in node_asts(nd):
            if nd.kind == "decl":
                for d in nd.ast["d"]:
                    if ("local", d["id"], d["n"]) == var and d.get("init") is not None:
                        defs.append(("init", d["init"]))
            for x in C.walk(a):
                if x.get("k") == "Bin" and x["op"] in ("=", "+=", "-=", "*=") and C.ref_key(x["a"]) == var:
                    defs.append((x["op"], x["b"]))
                if x.get("k") == "Un" and x["op"] in ("pre++", "post++", "pre--", "post--") and C.ref_key(x["x"]) == var:
                    defs.append((x["op"], None))

    def is_size(e):
        e = C.strip_casts(e)
        return C.is_call(e, name="size") and "PhotonBuffer" in e.get("cls", "")
    # const locals that hold a buffer size
    size_locals = set()
    for nd in g.nodes:
        if nd.kind == "decl":
            for d in nd.ast["d"]:
                if d.get("init") is not None and is_size(d["init"]) and (d.get("t") or "").startswith("const "):
                    size_locals.add(("local", d["id"], d["n"]))

    def terms(e, sign=1):
        """Signed size terms of a +/- tree; None if a leaf is not a buffer size."""
        e = C.strip_casts(e)
        if e.get("k") == "Bin" and e["op"] in ("+", "-"):
            a2 = terms(e["a"], sign)
            b2 = terms(e["b"], sign if e["op"] == "+" else -sign)
            return None if a2 is None or b2 is None else a2 + b2
        if is_size(e) or C.ref_key(e) in size_locals:
            return [sign]
        return None
    inits = [d for d in defs if d[0] == "init"]
    subs = [d for d in defs if d[0] == "-="]
    others = [d for d in defs if d[0] not in ("init", "-=")]
    it = terms(inits[0][1]) if len(inits) == 1 else None
    nsub = len(subs) + (sum(1 for t in it if t < 0) if it else 0)
    okk = it is not None and sum(1 for t in it if t > 0) == 1 and \
        all(is_size(b) or C.ref_key(b) in size_locals for _, b in subs) and not others and nsub >= 1
    chk.require(okk, "R4", "%s: done = size(input) - sizes of the buffers holding packets for later work" % label,
                where(add, fn), "the accumulator is defined by %s" %
                [(op, C.pretty(b) if b else "") for op, b in defs], function=fn["full"], construct="done amount")
    return n


def find_worker_loop(drv):
    loops = []

    def walk(s, stack):
        k = s.get("k")
        if k in ("While", "For", "Do"):
            stack = stack + [s]
        if C.is_call(s, name="execute") and s.get("virt") and "TaskContext" in s.get("cls", ""):
            loops.append(stack[-1] if stack else None)
        if k == "Block":
            for x in s["s"]:
                walk(x, stack)
        elif k == "If":
            for key in ("init", "c", "th", "el"):
                if s.get(key):
                    walk(s[key], stack)
        elif k in ("While", "Do"):
            walk(s["c"], stack)
            walk(s["body"], stack)
        elif k == "For":
            for key in ("init", "c", "inc", "body"):
                if s.get(key):
                    walk(s[key], stack)
        elif k in ("OMP", "Captured", "Attributed"):
            if s.get("body"):
                walk(s["body"], stack)
        elif k == "Decl":
            for d in s["d"]:
                if d.get("init") is not None:
                    walk(d["init"], stack)
        else:
            for x in C.children_of(s):
                walk(x, stack)
    walk(drv["body"], [])
    return [l for l in loops if l is not None]


def rule_R5(chk, drv, label):
    loops = find_worker_loop(drv)
    if len(loops) != 1:
        raise AnalysisBroken("%s: worker loop (innermost loop around TaskContext::execute) found %d times" %
                             (drv["full"], len(loops)))
    inner = loops[0]
    g = C.CFG(drv, body=inner["body"], name=label + " worker loop body")
    n = 0

    def nodes_with(pred):
        return [nd for nd in g.nodes if calls_in(nd, pred)]
    execs = nodes_with(lambda x: C.is_call(x, name="execute") and x.get("virt"))
    unlocks = nodes_with(lambda x: C.is_call(x, name="unlock_dependency", cls="Task"))
    n += 1
    okk = len(execs) == 1 and len(unlocks) == 1 and g.all_paths_pass(g.entry.id, {unlocks[0].id}) and \
        unlocks[0].id in g.reachable(execs[0].id)
    chk.require(okk, "R5", "%s: the executed task's locks are released exactly once, after execute" % label,
                where(inner, drv), "execute sites %d, unlock sites %d, on every path: %s" %
                (len(execs), len(unlocks), bool(unlocks) and g.all_paths_pass(g.entry.id, {unlocks[0].id})),
                function=drv["full"], construct="worker unlock")
    frees = nodes_with(lambda x: C.is_call(x, name="free_element"))
    n += 1
    okf = len(frees) == 1 and frees[0].id in g.reachable(execs[0].id) if execs else False
    # the only condition that may skip the free is the task-plot switch
    if okf:
        doms = g.dominators()
        guards = [g.nodes[d] for d in doms[frees[0].id] if g.nodes[d].kind == "branch"]
        okf = all("task_plot" in C.pretty(b.ast) for b in guards)
    chk.require(okf, "R5", "%s: the executed task's slot is freed once (unless tasks are kept for plotting)" % label,
                where(inner, drv), "free_element sites after execute: %d, or guarded by something else than the "
                "task-plot switch" % len(frees), function=drv["full"], construct="worker free slot")
    # publication loop: for i < returned count: add_task(tasks_to_add[i]) to shared queue iff queues_to_add[i] < 0
    pubs = [s for s in C.walk_stmt(inner["body"]) if s.get("k") == "For" and
            any(C.is_call(x, name="add_task") for x in C.walk_stmt(s["body"]))]
    n += 1
    okp = len(pubs) == 1
    detail = "publication loop not found"
    if okp:
        lp = pubs[0]
        gi = C.CFG(drv, body=lp["body"], name="publication loop body")
        adds = [nd for nd in gi.nodes if calls_in(nd, lambda x: C.is_call(x, name="add_task"))]

        def tr(node, st):
            if calls_in(node, lambda x: C.is_call(x, name="add_task")):
                return [(None, min(2, st + 1))]
            return [(None, st)]
        ex = C.explore(gi, 0, tr)
        cnts = ex.at.get(gi.exit.id, set())
        c = C.strip_casts(lp["c"])
        ret_var = None
        for s in C.walk_stmt(inner["body"]):
            if s.get("k") == "Bin" and s["op"] == "=" and any(C.is_call(x, name="execute") and x.get("virt")
                                                               for x in C.walk(s["b"])):
                ret_var = C.ref_key(s["a"])
        bound_ok = c.get("k") == "Bin" and c["op"] == "<" and C.ref_key(c["b"]) == ret_var and ret_var is not None
        okp = cnts == {1} and bound_ok
        detail = "per returned task %s add_task calls; loop bound is the value returned by execute: %s" % (
            sorted(cnts), bound_ok)
    chk.require(okp, "R5", "%s: every task returned by execute is added to exactly one queue" % label,
                where(pubs[0] if pubs else inner, drv), detail, function=drv["full"], construct="worker publication")
    return n, inner


def rule_R5_termination(chk, drv, label, inner):
    """The run flag is cleared only when no buffer is in flight and done == requested: the path condition of every
    `flag = false` (conjunction of the enclosing if-conditions with their arm polarity) implies both atoms, decided by a
    truth table over the atoms of those conditions."""
    import itertools
    n = 0
    writes = []

    def walk(st, stack):
        k = st.get("k")
        if k == "Block":
            for c2 in st.get("s", []):
                walk(c2, stack)
        elif k == "If":
            if st.get("th") is not None:
                walk(st["th"], stack + [(st["c"], True)])
            if st.get("el") is not None:
                walk(st["el"], stack + [(st["c"], False)])
        elif k in ("For", "While", "Do", "OMP", "Captured", "ForRange"):
            for key in ("body", "s"):
                if isinstance(st.get(key), dict):
                    walk(st[key], stack)
                elif isinstance(st.get(key), list):
                    for c2 in st[key]:
                        walk(c2, stack)
        elif k == "Bin" and st["op"] == "=" and C.strip_casts(st["b"]).get("k") == "Bool" and \
                C.strip_casts(st["b"])["v"] is False and "run_flag" in (C.strip_casts(st["a"]).get("n") or ""):
            writes.append((st, list(stack)))
        else:
            for key in ("body", "th", "el", "sub"):
                if isinstance(st.get(key), dict):
                    walk(st[key], stack)
    walk(drv["body"], [])
    n += 1
    okk = len(writes) >= 1
    detail = "no write of `false` to the run flag found"
    for x, stack in writes:
        atoms = {}

        def norm(e):
            """(formula) with atoms registered; formula is a nested tuple."""
            e = C.strip_casts(e)
            k = e.get("k")
            if k == "Un" and e["op"] == "!":
                return ("not", norm(e["x"]))
            if k == "Bin" and e["op"] in ("&&", "||"):
                return ("and" if e["op"] == "&&" else "or", norm(e["a"]), norm(e["b"]))
            if k == "Bin" and e["op"] in ("==", "!="):
                key = "eq:" + " ~ ".join(sorted((C.pretty(e["a"]), C.pretty(e["b"]))))
                atoms.setdefault(key, e)
                return ("atom", key) if e["op"] == "==" else ("not", ("atom", key))
            key = "b:" + C.pretty(e)
            atoms.setdefault(key, e)
            return ("atom", key)

        def ev(f, val):
            if f[0] == "atom":
                return val[f[1]]
            if f[0] == "not":
                return not ev(f[1], val)
            if f[0] == "and":
                return ev(f[1], val) and ev(f[2], val)
            return ev(f[1], val) or ev(f[2], val)
        forms = [(norm(c), pol) for c, pol in stack]
        empty_atoms = [k for k, e in atoms.items() if k.startswith("b:") and C.is_call(e, name="is_empty")]
        done_atoms = [k for k, e in atoms.items() if k.startswith("eq:") and
                      any(C.is_call(y, name="value", cls="AtomicValue") for y in C.walk(e)) and "photon" in k.lower()]
        if len(empty_atoms) != 1 or len(done_atoms) != 1 or len(atoms) > 12:
            okk = False
            detail = "the run flag is cleared under `%s`: the tests `no buffer in flight` / `done == requested` were not " \
                     "both found" % " and ".join(("" if pol else "not ") + C.pretty(c) for c, pol in stack[-2:])
            continue
        keys = sorted(atoms)
        for bits in itertools.product((False, True), repeat=len(keys)):
            val = dict(zip(keys, bits))
            if all(ev(f, val) == pol for f, pol in forms):
                if not (val[empty_atoms[0]] and val[done_atoms[0]]):
                    okk = False
                    detail = "the run flag can be cleared while %s: condition `%s`" % (
                        "a buffer is still in flight" if not val[empty_atoms[0]] else "done != requested",
                        " and ".join(("" if pol else "not ") + C.pretty(c)[:80] for c, pol in stack[-2:]))
                    break
    chk.require(okk, "R5", "%s: the iteration ends only when no buffer is in flight and done == requested" % label,
                where(inner, drv), detail, function=drv["full"], construct="termination condition")
    return n


def rule_R6(chk, drv, label):
    """Source task creation: the batch stored in the task is the amount added to the launched counter."""
    n = 0
    for s in C.walk_stmt(drv["body"]):
        if s.get("k") != "Block":
            continue
        stmts = s["s"]
        types = [x for st in stmts for x in C.walk_stmt(st) if C.is_call(x, name="set_type") and x["a"] and
                 (C.strip_casts(x["a"][0]).get("n") or "").startswith("TASKTYPE_SOURCE_")]
        direct = [st for st in stmts if any(C.is_call(x, name="set_type") and x["a"] and
                                            (C.strip_casts(x["a"][0]).get("n") or "").startswith("TASKTYPE_SOURCE_")
                                            for x in C.walk(st) if st.get("k") not in ("If", "For", "While", "Block"))]
        if not direct:
            continue
        setb = [x for st in stmts if st.get("k") not in ("If", "For", "While", "Block") for x in C.walk(st)
                if C.is_call(x, name="set_buffer", cls="Task")]
        incs = [st for st in stmts if st.get("k") == "Bin" and st["op"] == "+=" and
                "photons_done" in (C.strip_casts(st["a"]).get("n") or "")]
        n += 1
        okk = len(setb) == 1 and len(incs) == 1 and C.pretty(setb[0]["a"][0]) == C.pretty(incs[0]["b"])
        chk.require(okk, "R6", "%s: source task at line %s carries the batch that is counted as launched" %
                    (label, direct[0].get("l")), where(direct[0], drv),
                    "the task is given %s packets, the launched counter grows by %s" %
                    ([C.pretty(x["a"][0]) for x in setb], [C.pretty(i["b"]) for i in incs]), function=drv["full"],
                    construct="source batch line-free %s" % (C.pretty(setb[0]["a"][0]) if setb else "?"))
    return n


def rule_R7(chk, unit, drv):
    fns = [d for d in unit.decls if d["kind"] == "function" and d.get("clsq") == "SourceContinuousPhotonTaskContext"
           and d["name"] == "execute"]
    if len(fns) != 1:
        raise AnalysisBroken("SourceContinuousPhotonTaskContext::execute not found")
    fn = fns[0]
    chk.analysed(function=fn["full"])
    g = C.CFG(fn)
    n = 0
    subs = [nd for nd in g.nodes if calls_in(nd, lambda x: C.is_call(x, name="pre_subtract", cls="AtomicValue"))]
    gen_loops = [s for s in fn["body"]["s"] if s.get("k") == "For" and
                 any(C.is_call(x, name="get_next_free_photon") for x in C.walk_stmt(s["body"]))]
    n += 1
    okk = len(subs) == 1 and len(gen_loops) == 1
    detail = "expected one generation loop and one pre_subtract"
    if okk:
        # the subtraction must come after the loop: it must not reach any node of the loop
        loop_lines = {x.get("l") for x in C.walk_stmt(gen_loops[0]["body"]) if x.get("l")}
        after = g.reachable(subs[0].id)
        inloop = [nd for nd in g.nodes if nd.id in after and nd.line() in loop_lines and nd.id != subs[0].id and
                  calls_in(nd, lambda x: C.is_call(x, name="get_next_free_photon"))]
        okk = not inloop and g.all_paths_pass(g.entry.id, {subs[0].id})
        detail = "the task announces its packets as done (pre_subtract) before it has stored them: another task can " \
                 "see the counter reach 0 and flush while packets are still being generated"
    chk.require(okk, "R7", "an external-source task subtracts its packets from the remaining counter after storing them",
                where(fn), detail, function=fn["full"], construct="subtract after generation")
    # flush creation: control dependent on (remaining == 0) and (once flag == 1)
    flush_types = [nd for nd in g.nodes if calls_in(nd, lambda x: C.is_call(x, name="set_type") and x["a"] and
                                                    C.strip_casts(x["a"][0]).get("n") ==
                                                    "TASKTYPE_FLUSH_CONTINUOUS_PHOTON_BUFFERS")]
    n += 1
    okk = len(flush_types) == 1
    detail = "flush task creation not found"
    if okk:
        doms = g.dominators()
        guards = [g.nodes[d] for d in doms[flush_types[0].id] if g.nodes[d].kind == "branch"]
        gtxt = [C.pretty(b.ast) for b in guards if "other_copy" not in C.pretty(b.ast)]
        zero = [t for t in gtxt if ".value()" in t and "== 0" in t]
        once_decl = None
        for s in C.walk_stmt(fn["body"]):
            if s.get("k") == "Decl":
                for d in s["d"]:
                    if d.get("init") is not None and C.is_call(C.strip_casts(d["init"]), name="pre_increment",
                                                               cls="AtomicValue"):
                        once_decl = d
        once = [t for t in gtxt if once_decl is not None and once_decl["n"] in t and "== 1" in t]
        inc_nodes = [nd for nd in g.nodes if calls_in(nd, lambda x: C.is_call(x, name="pre_increment", cls="AtomicValue"))]
        if not once:
            # the once-flag tested directly: `flag.pre_increment() == 1` as (part of) a guard
            for b in guards:
                e_ = C.strip_casts(b.ast)
                if e_ is not None and e_.get("k") == "Bin" and e_.get("op") == "==" and C.const_int(e_["b"]) == 1 and \
                        C.is_call(C.strip_casts(e_["a"]), name="pre_increment", cls="AtomicValue"):
                    once.append(C.pretty(b.ast))
        # the once-flag may only be touched when no packets remain (otherwise the first task to look uses it up)
        zero_nodes = [b for b in guards if ".value()" in C.pretty(b.ast) and "== 0" in C.pretty(b.ast)]
        order_ok = True
        if zero_nodes and inc_nodes and once:
            order_ok = all(zero_nodes[0].id in doms[nd.id] and zero_nodes[0].id != nd.id for nd in inc_nodes)
        # equivalent idiom: one atomic read-modify-write whose result is tested (`pre_subtract(n) == 0` is seen by
        # exactly one task)
        rmw = []
        for s2 in C.walk_stmt(fn["body"]):
            if s2.get("k") == "Decl":
                for d2 in s2["d"]:
                    ie = C.strip_casts(d2.get("init")) if d2.get("init") is not None else None
                    if ie is not None and ie.get("k") == "Bin" and ie["op"] == "==" and C.const_int(ie["b"]) == 0 and \
                            C.is_call(C.strip_casts(ie["a"]), name="pre_subtract", cls="AtomicValue"):
                        rmw.append(d2["n"])
        single = [t for t in gtxt if t in rmw]
        okk = (len(zero) == 1 and len(once) == 1 and order_ok) or len(single) == 1
        detail = "the flush tasks are created under %s; required: remaining == 0 and an atomic once-flag == 1, the flag being " \
                 "touched only after remaining == 0 was seen (two tasks can both observe 0 and flush twice, a task can flush " \
                 "before the others have stored their packets, or the flag is used up while packets remain)" % gtxt
    chk.require(okk, "R7", "the flush is scheduled exactly once, when no packets remain", where(fn), detail,
                function=fn["full"], construct="flush once")
    # every flush task holds the lock of its block
    n += 1
    loops = [s for s in C.walk_stmt(fn["body"]) if s.get("k") in ("For", "While", "ForRange") and
             any(C.is_call(x, name="set_type") and x["a"] and C.strip_casts(x["a"][0]).get("n") ==
                 "TASKTYPE_FLUSH_CONTINUOUS_PHOTON_BUFFERS" for x in C.walk_stmt(s["body"]))]
    okk = len(loops) == 1
    detail = "flush creation loop not found"
    ikey = None
    if okk:
        lp = loops[0]
        range_lock = None
        if lp.get("k") == "For" and lp.get("init") is not None and lp["init"].get("k") == "Decl":
            iv = lp["init"]["d"][0]
            ikey = ("local", iv["id"], iv["n"])
        elif lp.get("k") == "ForRange":
            # a range-for over the block locks with a counter stepped alongside: the element IS the lock of block `counter`
            stepped = [C.strip_casts(x["x"]) for x in C.walk_stmt(lp["body"])
                       if x.get("k") == "Un" and x.get("op") in ("pre++", "post++") and C.strip_casts(x["x"]).get("k") == "Ref"]
            ids_ = {x.get("id") for x in stepped}
            if len(ids_) == 1 and "source_lock" in C.pretty(lp.get("range")) and isinstance(lp.get("var"), dict):
                ikey = ("local", stepped[0]["id"], stepped[0]["n"])
                range_lock = ("local", lp["var"].get("id"), lp["var"].get("n"))
        else:
            # the counter of a while loop: the local compared in the condition and stepped in the body
            cnd_refs = [x for x in C.walk(lp["c"]) if x.get("k") == "Ref" and "id" in x] if lp.get("c") is not None else []
            stepped = {C.strip_casts(x["x"]).get("id") for x in C.walk_stmt(lp["body"])
                       if x.get("k") == "Un" and x.get("op") in ("pre++", "post++")}
            cands_ = [x for x in cnd_refs if x["id"] in stepped]
            if len(cands_) == 1:
                ikey = ("local", cands_[0]["id"], cands_[0]["n"])
        okk = ikey is not None
        detail = "the counter of the flush creation loop was not recognised"
    if okk:
        sg = [x for x in C.walk_stmt(lp["body"]) if C.is_call(x, name="set_subgrid", cls="Task")]
        dep = [x for x in C.walk_stmt(lp["body"]) if C.is_call(x, name="set_dependency", cls="Task")]
        okk = len(sg) == 1 and len(dep) == 1 and C.ref_key(sg[0]["a"][0]) == ikey and \
            ((any(C.ref_key(y) == ikey for y in C.walk(dep[0]["a"][0])) and "source_lock" in C.pretty(dep[0]["a"][0])) or
             (range_lock is not None and any(C.ref_key(y) == range_lock for y in C.walk(dep[0]["a"][0]))))
        if okk and range_lock is not None:
            # the counter must be stepped exactly once per element, after the task was given its block and its lock
            steps = [x for x in C.walk_stmt(lp["body"]) if x.get("k") == "Un" and x.get("op") in ("pre++", "post++") and
                     C.ref_key(x["x"]) == ikey]
            uniq = []
            for x in steps:
                if not any(x is y for y in uniq):
                    uniq.append(x)
            okk = len(uniq) == 1 and uniq[0].get("l", 0) > max(sg[0].get("l", 0), dep[0].get("l", 0)) and \
                not any(s2.get("k") in ("If", "Continue", "Break") for s2 in C.walk_stmt(lp["body"]))
        detail = "flush task for block %s has dependency %s: without its block's lock a flush can run while a source " \
                 "task of that block is still storing packets, which are then never launched" % (
                     C.pretty(sg[0]["a"][0]) if sg else "?", [C.pretty(d["a"][0]) for d in dep])
    chk.require(okk, "R7", "every flush task holds the lock of the block it flushes", where(fn), detail,
                function=fn["full"], construct="flush lock")
    # source tasks created by the driver hold the lock of their block
    blocks = [s for s in C.walk_stmt(drv["body"]) if s.get("k") == "Block" and
              any(C.is_call(x, name="set_type") and x["a"] and C.strip_casts(x["a"][0]).get("n") ==
                  "TASKTYPE_SOURCE_CONTINUOUS_PHOTON" for st in s["s"] if st.get("k") not in ("If", "For", "While", "Block")
                  for x in C.walk(st))]
    for b in blocks:
        sg = [x for st in b["s"] if st.get("k") not in ("If", "For", "While", "Block") for x in C.walk(st)
              if C.is_call(x, name="set_subgrid", cls="Task")]
        dep = [x for st in b["s"] if st.get("k") not in ("If", "For", "While", "Block") for x in C.walk(st)
               if C.is_call(x, name="set_dependency", cls="Task")]
        n += 1
        okk = len(sg) == 1 and len(dep) == 1 and C.pretty(sg[0]["a"][0]) in C.pretty(dep[0]["a"][0])
        chk.require(okk, "R7", "external-source task (line %s) holds the lock of the block it fills" % b.get("l"),
                    where(b, drv), "block %s, dependency %s" % ([C.pretty(x["a"][0]) for x in sg],
                                                               [C.pretty(x["a"][0]) for x in dep]),
                    function=drv["full"], construct="source task lock")
    return n


def rule_R8(chk, lib):
    fns = [d for d in lib.decls if d["kind"] == "function" and d.get("clsq") == "DistributedPhotonSource"
           and d["name"] == "get_photon_batch" and not d.get("dependent")]
    if not fns:
        raise AnalysisBroken("DistributedPhotonSource::get_photon_batch not instantiated")
    n = 0
    for fn in fns:
        chk.analysed(function=fn["full"])
        g = C.CFG(fn)

        def tr(node, st):
            held = st
            for x in calls_in(node, lambda y: C.is_call(y) and y.get("n") in ("lock", "unlock") and
                              y.get("cls", "").startswith("ThreadLock")):
                held = (x["n"] == "lock")
            return [(None, held)]
        ex = C.explore(g, False, tr)
        writes = [nd for nd in g.nodes if nd.kind == "stmt" and nd.ast.get("k") == "Bin" and nd.ast["op"] in ("+=", "=") and
                  "_number_done" in C.pretty(nd.ast["a"])]
        n += 1
        okk = len(writes) == 1 and ex.at.get(writes[0].id) == {True} and ex.at.get(g.exit.id) == {False}
        chk.require(okk, "R8", "%s updates the per-source counter under the source's lock and releases it" % fn["full"],
                    where(fn), "counter writes: %d, lock held at the write: %s, lock state at exit: %s" %
                    (len(writes), sorted(ex.at.get(writes[0].id, [])) if writes else None,
                     sorted(ex.at.get(g.exit.id, []))), function=fn["full"], construct="batch lock")
        n += 1
        rets = [s for s in C.walk_stmt(fn["body"]) if s.get("k") == "Return" and C.const_int(s.get("x")) is None]
        okk = len(writes) == 1 and len(rets) == 1 and C.ref_key(rets[0]["x"]) == C.ref_key(writes[0].ast["b"])
        bound = False
        if okk:
            key = C.ref_key(rets[0]["x"])
            for s in C.walk_stmt(fn["body"]):
                if s.get("k") == "Decl":
                    for d in s["d"]:
                        if ("local", d["id"], d["n"]) == key and d.get("init") is not None:
                            ie = C.strip_casts(d["init"])
                            if C.is_call(ie) and (ie.get("fn") or "").endswith("min") and len(ie["a"]) == 2:
                                txt = C.pretty(ie)
                                bound = "_total_number_of_photons" in txt and "_number_done" in txt and " - " in txt
        chk.require(okk and bound, "R8", "%s returns the amount it added, bounded by total - done" % fn["full"],
                    where(fn), "returned value and counter increment differ, or the batch is not min(max, total - done)",
                    function=fn["full"], construct="batch amount")
    return n


class _IntConv(object):
    """Expression -> sympy with integer division / modulus as uninterpreted functions and const locals substituted."""

    def __init__(self, fn):
        from ..sym import Converter, Env
        self.conv = Converter(integer=True)
        base_binop = self.conv.binop
        idiv, imod = sp.Function("idiv"), sp.Function("imod")

        def binop(op, a, b, e=None):
            if op == "/":
                return idiv(a, b)
            if op == "%":
                return imod(a, b)
            return base_binop(op, a, b, e)
        self.conv.binop = binop
        self.env = Env()
        for s2 in C.walk_stmt(fn["body"]):
            if s2.get("k") == "Decl":
                for d in s2["d"]:
                    if d.get("init") is not None and (d.get("t") or "").startswith("const ") and \
                            not (d.get("t") or "").rstrip().endswith("&"):
                        try:
                            self.env.vals[("l", d["id"])] = self.conv.conv(d["init"], self.env)
                        except Exception:
                            pass

    def __call__(self, e):
        try:
            return self.conv.conv(e, self.env)
        except Exception:
            return sp.Symbol("?" + C.pretty(e))


def rule_R9(chk, lib):
    """The per-source split of the requested packets adds up to the request (DistributedPhotonSource constructor):
    per source, the copies receive X / n each plus one for the first X % n of them (n = number of copies = the bound of
    the loop that pushes them), the running sum is advanced by the same X once per source, and the remainder request - sum
    is handed out one packet per iteration of the overhead loop."""
    ctors = [d for d in lib.decls if d["kind"] == "function" and d.get("clsq") == "DistributedPhotonSource"
             and d.get("ctor") and d.get("body") and not d.get("dependent") and len(d["params"]) >= 3]
    if not ctors:
        raise AnalysisBroken("DistributedPhotonSource constructor not instantiated")
    n = 0
    for fn in ctors:
        chk.analysed(function=fn["full"])
        V = _IntConv(fn)
        idiv, imod = sp.Function("idiv"), sp.Function("imod")
        request = ("local", fn["params"][0]["id"], fn["params"][0]["n"])
        decls = {}
        for s2 in C.walk_stmt(fn["body"]):
            if s2.get("k") == "Decl":
                for d in s2["d"]:
                    decls.setdefault(d["n"], d)
        top = fn["body"]["s"]
        src_loops = [s2 for s2 in top if s2.get("k") == "For"]
        if len(src_loops) < 2:
            raise AnalysisBroken("%s: source loop / overhead loop not found" % fn["full"])
        src = src_loops[0]
        body = src["body"]["s"] if src["body"].get("k") == "Block" else [src["body"]]
        inner = [s2 for s2 in body if s2.get("k") == "For"]
        push_loops = []
        for lp in inner:
            pushes = [x for y in C.walk_stmt(lp["body"]) for x in ([y] if C.is_call(C.strip_casts(y), name="push_back") else [])
                      if C.member_name(C.strip_casts(x).get("obj")) == "_total_number_of_photons"]
            if pushes:
                push_loops.append((lp, pushes))
        ok1 = len(push_loops) == 1
        detail = "expected one loop pushing the per-copy totals"
        X = S = None
        if ok1:
            lp, pushes = push_loops[0]
            lb = lp["body"]["s"] if lp["body"].get("k") == "Block" else [lp["body"]]
            # direct statements of the loop body: exactly one unconditional push of q, one guarded ++back()
            direct_push = [y for y in lb if C.is_call(C.strip_casts(y), name="push_back") and
                           C.member_name(C.strip_casts(y).get("obj")) == "_total_number_of_photons"]
            ok1 = len(direct_push) == 1 and len(pushes) == 1
            detail = "the per-copy total is not pushed exactly once per copy"
            if ok1:
                q = C.strip_casts(direct_push[0])["a"][0]
                qv = V(q)
                ok1 = getattr(qv, "func", None) == idiv
                detail = "the pushed value `%s` is not X / n" % C.pretty(q)
                if ok1:
                    X, S = qv.args
                    # loop bound = n
                    cnd = C.strip_casts(lp.get("c"))
                    i0 = lp["init"]["d"][0] if lp.get("init") and lp["init"].get("k") == "Decl" else None
                    ok1 = cnd is not None and cnd.get("k") == "Bin" and cnd["op"] == "<" and V(cnd["b"]) == S and \
                        i0 is not None and C.const_int(i0.get("init")) == 0
                    detail = "the copy loop does not run over 0 <= i < %s" % S
                if ok1:
                    ifs = [y for y in lb if y.get("k") == "If"]
                    incs = []
                    for y in ifs:
                        cc = C.strip_casts(y["c"])
                        for z in C.walk_stmt(y["th"]):
                            zz = C.strip_casts(z)
                            if zz.get("k") == "Un" and zz["op"] in ("pre++", "post++") and \
                                    "_total_number_of_photons" in C.pretty(zz["x"]):
                                incs.append((cc, zz))
                    ok1 = len(incs) == 1
                    detail = "expected exactly one guarded increment of the last pushed total"
                    if ok1:
                        cc, _ = incs[0]
                        ok1 = cc.get("k") == "Bin" and cc["op"] == "<" and V(cc["b"]) == imod(X, S) and \
                            C.ref_key(cc["a"]) == ("local", i0["id"], i0["n"])
                        detail = "the extra packet is not given to the copies i < X %% n (guard is `%s`)" % C.pretty(cc)
        n += 1
        chk.require(ok1, "R9", "%s: the copies of one source receive X / n each plus one for the first X %% n (sum = X)" %
                    fn["full"].split("(")[0], where(src, fn), detail, function=fn["full"], construct="per-source split")
        # running sum advanced by the same X once per source iteration (direct statement of the source loop body)
        adds = [C.strip_casts(y) for y in body if C.strip_casts(y).get("k") == "Bin" and C.strip_casts(y)["op"] == "+="]
        sumvar = None
        ok2 = False
        for a in adds:
            if X is not None and V(a["b"]) == X:
                ok2 = True
                sumvar = C.ref_key(a["a"])
        n += 1
        chk.require(ok2 and len([a for a in adds if C.ref_key(a["a"]) == sumvar]) == 1, "R9",
                    "the running sum is advanced by the same X exactly once per source", where(src, fn),
                    "no unconditional `sum += %s` in the source loop" % X, function=fn["full"], construct="running sum")
        # remainder and overhead loop
        ov = src_loops[1]
        cnd = C.strip_casts(ov.get("c"))
        ok3 = False
        detail = "overhead loop bound not understood"
        if cnd is not None and cnd.get("k") == "Bin" and cnd["op"] == "<":
            bv = V(cnd["b"])
            rq = V({"k": "Ref", "id": fn["params"][0]["id"], "n": fn["params"][0]["n"]})
            sv = None
            for a in adds:
                if C.ref_key(a["a"]) == sumvar and sumvar is not None:
                    sv = V(a["a"])
            ok3 = sv is not None and sp.expand(bv - (rq - sv)) == 0
            detail = "the overhead is `%s`, expected request - running sum" % bv
            ob = ov["body"]["s"] if ov["body"].get("k") == "Block" else [ov["body"]]
            incs = [C.strip_casts(y) for y in ob if C.strip_casts(y).get("k") == "Un" and
                    C.strip_casts(y)["op"] in ("pre++", "post++") and "_total_number_of_photons" in C.pretty(C.strip_casts(y)["x"])]
            if ok3 and len(incs) != 1:
                ok3 = False
                detail = "the overhead loop does not hand out exactly one packet per iteration"
            i0 = ov["init"]["d"][0] if ov.get("init") and ov["init"].get("k") == "Decl" else None
            if ok3 and not (i0 is not None and C.const_int(i0.get("init")) == 0):
                ok3 = False
                detail = "the overhead loop does not start at 0"
        n += 1
        chk.require(ok3, "R9", "the remainder request - sum is handed out one packet per iteration (total = request)",
                    where(ov, fn), detail, function=fn["full"], construct="overhead")
    return n


def run(chk, prog):
    chk.explanation = (
        "Typestate and accounting rules on the CFG of every task body and of both worker loops: task slots and photon "
        "buffers are published / released exactly once on every path, the done-counter advances by input size minus "
        "the sizes of the buffers kept for later work exactly once per task, the worker loop releases locks, frees the "
        "slot and publishes every returned task, the run flag is cleared only under (no buffer in flight and done == "
        "requested), source batches are counted as launched, external-source tasks announce their packets only after "
        "storing them, the flush is scheduled once under the once-flag idiom and holds its block's lock. Each rule "
        "constrains one task execution, so it holds under every schedule; quiescence detection under a racy schedule is "
        "not decided.")
    chk.assumptions += ["C08: containers hand every slot / task to one owner",
                        "the run flag (a plain bool) is eventually seen by every worker thread"]
    n = {"R1": 0, "R2": 0, "R3": 0, "R4": 0, "R5": 0, "R6": 0, "R7": 0, "R8": 0}
    for unit_name, drvname in (("TaskBasedIonizationSimulation.cpp", "TaskBasedIonizationSimulation::run"),
                               ("TaskBasedRadiationHydrodynamicsSimulation.cpp",
                                "TaskBasedRadiationHydrodynamicsSimulation::do_simulation")):
        unit = prog.unit(unit_name)
        chk.analysed(unit=unit_name)
        short = "ionization" if "Ionization" in unit_name else "RHD"
        seen = set()
        cands = list(unit.decls)
        if short == "ionization":
            cands += [d for d in prog.umbrella.decls if d["kind"] == "function" and not d.get("inst")]
        for d in cands:
            if d["kind"] == "function" and d["name"] == "execute" and d.get("clsq") in CONTEXTS \
                    and not d.get("dependent"):
                if d["full"] in seen:
                    continue
                seen.add(d["full"])
                chk.analysed(function=d["full"])
                label = "%s %s" % (short, d["cls"])
                # private helpers of the context (a task-creation helper extracted by a refactoring) are read in place
                d = C.with_inlined_helpers(d, cands)
                n["R1"] += rule_R1(chk, d, label)
                n["R2"] += rule_R2(chk, d, label)
                n["R3"] += rule_R3(chk, d, label)
                if d["clsq"] == "PhotonTraversalTaskContext":
                    n["R2"] += rule_R2_input(chk, d, label, False)
                    n["R4"] += rule_R4(chk, d, label)
                if d["clsq"] == "PhotonReemitTaskContext":
                    n["R2"] += rule_R2_input(chk, d, label, True)
                    n["R4"] += rule_R4(chk, d, label)
        drv = unit.func(drvname)
        chk.analysed(function=drv["full"])
        n["R1"] += rule_R1(chk, drv, short + " driver", only_types="TASKTYPE_SOURCE_")
        k, inner = rule_R5(chk, drv, short)
        n["R5"] += k
        n["R5"] += rule_R5_termination(chk, drv, short, inner)
        n["R6"] += rule_R6(chk, drv, short)
        if short == "ionization":
            n["R7"] += rule_R7(chk, prog.library(), drv)
            from . import c01_budget
            n["R10"] = c01_budget.rule_R10(chk, drv)
    n["R8"] += rule_R8(chk, prog.library())
    # R11: every traversal task carries the lock of the subgrid whose index it stores (c01_lock.py)
    from . import c01_lock
    n["R11"] = c01_lock.rule_R11(chk, prog.library())
    chk.floor("R11", n["R11"], 6)
    # R9 (the per-source split adds up to the request) was built and withdrawn: it matched the shape of the constructor
    # and fired on a behaviour-preserving rewrite (refactorings/g31/patch_06); see DESIGN.md section 8.
    chk.extra["obligations_per_rule"] = n
    chk.floor("R10", n.get("R10", 0), 3)
    chk.floor("R1", n["R1"], 12)
    chk.floor("R2", n["R2"], 8)
    chk.floor("R3", n["R3"], 3)
    chk.floor("R4", n["R4"], 6)
    chk.floor("R5", n["R5"], 8)
    chk.floor("R6", n["R6"], 3)
    chk.floor("R7", n["R7"], 4)
    chk.floor("R8", n["R8"], 2)
