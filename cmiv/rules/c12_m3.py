"""C12-M3 / M4 (optional components of the task-based drivers, fixed task arrays)."""
from .. import cfg as C
from ..astdb import AnalysisBroken, where

NULL, NONNULL, MAYBE = "null", "nonnull", "maybe"


def _is_null(e):
    e = C.strip_casts(e)
    return e is not None and (e.get("k") == "Null" or (e.get("k") == "Int" and str(e.get("v")) == "0"))


def _ptr_type(t):
    return (t or "").rstrip().endswith("*")


def value_nullness(e, state_of):
    """Abstract nullness of a pointer-valued expression."""
    e = C.strip_casts(e)
    if e is None:
        return MAYBE
    k = e.get("k")
    if _is_null(e):
        return NULL
    if k == "New":
        return NONNULL
    if k == "Un" and e.get("op") == "&":
        return NONNULL
    if k == "This":
        return NONNULL
    if k in ("Ref", "Mem"):
        key = C.ref_key(e)
        v = state_of(key)
        if v is not None:
            return v
    if k == "Cond":
        a, b = value_nullness(e["a"], state_of), value_nullness(e["b"], state_of)
        return a if a == b else MAYBE
    return MAYBE


def null_test(e):
    """(key, True) when e is true iff key != null; (key, False) when true iff key == null; else None."""
    e = C.strip_casts(e)
    if e is None:
        return None
    if e.get("k") == "Bin" and e["op"] in ("==", "!="):
        a, b = e["a"], e["b"]
        if _is_null(b) and C.ref_key(a) is not None:
            return C.ref_key(a), e["op"] == "!="
        if _is_null(a) and C.ref_key(b) is not None:
            return C.ref_key(b), e["op"] == "!="
    if e.get("k") in ("Ref", "Mem"):
        return C.ref_key(e), True
    return None


def derefs(ast, key):
    """Dereferences of pointer `key` in ast: p->m, *p, p[i]."""
    out = []
    for x in C.walk(ast):
        k = x.get("k")
        if k == "Mem" and x.get("arrow") and C.ref_key(C.strip_casts(x["b"])) == key:
            out.append(x)
        elif k == "Un" and x.get("op") == "*" and C.ref_key(C.strip_casts(x["x"])) == key:
            out.append(x)
        elif k == "Idx" and C.ref_key(C.strip_casts(x["a"])) == key:
            out.append(x)
        elif k == "Call" and x.get("obj") is not None and x.get("arrow") and \
                C.ref_key(C.strip_casts(x["obj"])) == key:
            out.append(x)
    return out


def node_exprs(node):
    if node.ast is None or node.kind == "marker" or node.ast.get("k") in ("Abort", "RangeHasNext"):
        return []
    if node.kind == "decl":
        return [d["init"] for d in node.ast["d"] if d.get("init") is not None]
    if node.kind == "init":
        return [node.ast["x"]] if node.ast.get("x") else []
    if node.kind == "return":
        return [node.ast["x"]] if node.ast.get("x") else []
    return [node.ast]


def candidates(fn, g):
    """Local pointer variables the function itself compares with nullptr and also dereferences."""
    decls = {}
    for node in g.nodes:
        if node.kind == "decl":
            for d in node.ast["d"]:
                if _ptr_type(d.get("t")):
                    decls[("local", d["id"], d["n"])] = (node, d)
    tested, used = set(), set()
    for node in g.nodes:
        for a in node_exprs(node):
            for x in C.walk(a):
                if x.get("k") == "Bin" and x.get("op") in ("==", "!="):
                    t = null_test(x)
                    if t and t[0] in decls:
                        tested.add(t[0])
            if node.kind == "branch":
                t = null_test(a)
                if t and t[0] in decls:
                    tested.add(t[0])
            for key in decls:
                if key not in used and derefs(a, key):
                    used.add(key)
    return {k: decls[k] for k in decls if k in tested and k in used}


def analyse_pointer(fn, g, key, declnode):
    """Returns list of (deref ast, node, state, exploration) where the pointer may be null."""
    def assign_value(a, st):
        return value_nullness(a, lambda k: st if k == key else None)

    def tr(node, st):
        if node.kind == "decl":
            for d in node.ast["d"]:
                if ("local", d["id"], d["n"]) == key:
                    st = assign_value(d.get("init"), st) if d.get("init") is not None else MAYBE
            return [(None, st)]
        if node.kind == "branch":
            t = null_test(node.ast)
            if t and t[0] == key:
                outs = []
                for lab in (True, False):
                    nonnull = (t[1] == lab)
                    if (st == NULL and nonnull) or (st == NONNULL and not nonnull):
                        continue      # infeasible edge
                    outs.append((lab, NONNULL if nonnull else NULL))
                return outs
            return [(None, st)]
        for a in node_exprs(node):
            for x in C.walk(a):
                if x.get("k") == "Bin" and x.get("op") == "=" and C.ref_key(x["a"]) == key:
                    st = assign_value(x["b"], st)
                elif x.get("k") == "Call" and x.get("pt"):
                    for arg, pt in zip(x["a"], x["pt"]):
                        if C.ref_key(arg) == key and pt.rstrip().endswith("&") and "*const" not in pt.replace(" ", ""):
                            st = MAYBE
                elif x.get("k") == "Un" and x.get("op") == "&" and C.ref_key(x["x"]) == key:
                    st = MAYBE
        return [(None, st)]

    ex = C.explore(g, MAYBE, tr)
    out = []
    for node in g.nodes:
        sts = ex.at.get(node.id, ())
        if not sts:
            continue
        for a in node_exprs(node):
            ds = derefs(a, key)
            if not ds:
                continue
            # an assignment to the pointer inside the same node precedes nothing: evaluate on entry states
            bad = [s for s in sts if s != NONNULL]
            # a node that itself assigns the pointer from `new` before use is not modelled: be conservative
            for d in ds:
                if bad:
                    out.append((d, node, bad[0], ex))
    return out


# ---------------------------------------------------------------------------------------------
# joint analysis of a group of pointers

def returns_nonnull(lib, call, depth=0, _memo={}):
    """The resolved callee provably never returns a null pointer: every return statement returns `new`, the address
    of something, or the result of such a callee. Unknown bodies -> False."""
    fnq = call.get("fn")
    if not fnq or depth > 3:
        return False
    if fnq in _memo:
        return _memo[fnq]
    cands = [d for d in lib.functions.get(fnq, []) if d.get("body")]
    if not cands:
        _memo[fnq] = False
        return False
    _memo[fnq] = True     # coinductive: a recursive / overloaded self call returns what some return statement returns
    ok = True
    for d in cands:
        gg = C.CFG(d)
        reach = gg.reachable()
        rets = [n.ast for n in gg.nodes if n.kind == "return" and n.id in reach]
        if not rets:
            ok = False
        for r in rets:
            e = C.strip_casts(r.get("x"))
            if e is None:
                ok = False
            elif e.get("k") == "New" or (e.get("k") == "Un" and e.get("op") == "&"):
                continue
            elif e.get("k") == "Call" and returns_nonnull(lib, e, depth + 1):
                continue
            else:
                ok = False
    _memo[fnq] = ok
    return ok


ZERO, ANY = "zero", "any"


def zero_lit(e):
    e = C.strip_casts(e)
    if e is None:
        return False
    if e.get("k") in ("Int", "Float"):
        try:
            return float(e["v"]) == 0.0
        except (TypeError, ValueError):
            return False
    if e.get("k") == "Bool":
        return not e["v"]
    return False


def flag_locals(fn, keys):
    """Integer / bool locals initialised with literal 0 / false that are assigned inside an `if` whose condition tests
    a tracked pointer against null: `flag > 0` then implies facts about the pointer (correlated guard)."""
    zero_init = {}
    for s in C.walk_stmt(fn["body"]):
        if s.get("k") == "Decl":
            for d in s["d"]:
                if d.get("init") is not None and zero_lit(d["init"]) and not _ptr_type(d.get("t")):
                    zero_init[("local", d["id"], d["n"])] = d
    out = set()
    keyset = set(keys)
    # `n = (p != nullptr) ? N : 0` (the test possibly named in a bool local first): n > 0 implies p != nullptr
    bool_tests = {}
    for s in C.walk_stmt(fn["body"]):
        if s.get("k") == "Decl":
            for d in s["d"]:
                if d.get("init") is not None and (d.get("t") or "").replace("const ", "").strip() == "bool":
                    t0 = null_test(d["init"]) if C.strip_casts(d["init"]).get("k") == "Bin" else None
                    if t0 and t0[0] in keyset:
                        bool_tests[("local", d["id"], d["n"])] = t0
    for s in C.walk_stmt(fn["body"]):
        if s.get("k") == "Decl":
            for d in s["d"]:
                if cond_flag_init(d, keyset, bool_tests) is not None:
                    out.add(("local", d["id"], d["n"]))
    for s in C.walk_stmt(fn["body"]):
        if s.get("k") == "If" and s.get("c") is not None:
            tests = False
            for x in C.walk(s["c"]):
                t = null_test(x) if x.get("k") == "Bin" else None
                if t and t[0] in keyset:
                    tests = True
                if x.get("k") in ("Ref", "Mem") and C.ref_key(x) in keyset:
                    tests = True
            if not tests:
                continue
            for br in (s.get("th"), s.get("el")):
                if br is None:
                    continue
                for y in C.walk_stmt(br):
                    if y.get("k") in ("Block", "If", "For", "While", "Do", "ForRange", "Switch", "Decl"):
                        continue
                    for z in C.walk(y):
                        if z.get("k") == "Bin" and z.get("op") == "=" and C.ref_key(z["a"]) in zero_init:
                            out.add(C.ref_key(z["a"]))
    return sorted(out, key=str)


def cond_flag_init(d, keyset, bool_tests):
    """(pointer key, polarity under which the flag is non-zero) for `T n = test ? X : 0` / `test ? 0 : X`, else None"""
    if d.get("init") is None or _ptr_type(d.get("t")):
        return None
    i0 = C.strip_casts(d["init"])
    if i0.get("k") != "Cond":
        return None
    za, zb = zero_lit(i0["a"]), zero_lit(i0["b"])
    if za == zb:
        return None
    c0 = C.strip_casts(i0["c"])
    t = None
    if c0.get("k") == "Bin":
        t = null_test(c0)
    elif c0.get("k") == "Ref" and C.ref_key(c0) in bool_tests:
        t = bool_tests[C.ref_key(c0)]
    elif c0.get("k") == "Un" and c0.get("op") == "!" and C.ref_key(C.strip_casts(c0["x"])) in bool_tests:
        b = bool_tests[C.ref_key(C.strip_casts(c0["x"]))]
        t = (b[0], not b[1])
    if t is None or t[0] not in keyset:
        return None
    # the flag is non-zero only when the condition selects the non-zero arm
    cond_true_nonzero = zb           # `test ? X : 0`: non-zero when the test is true
    return t[0], (t[1] if cond_true_nonzero else not t[1])


def flag_test(e):
    """(key, True) if e true implies key != 0 and e false implies key == 0 ... returns (key, polarity) for
    `k > 0`, `k != 0`, `k` (polarity True) and `k == 0` (polarity False)."""
    e = C.strip_casts(e)
    if e is None:
        return None
    if e.get("k") == "Bin" and e["op"] in (">", "!=", "==") and zero_lit(e["b"]):
        k = C.ref_key(e["a"])
        if k is not None:
            return k, e["op"] != "=="
    if e.get("k") == "Ref":
        return C.ref_key(e), True
    return None


class NullAnalysis:
    def __init__(self, lib, fn, g, keys, entry_state=None, flags=()):
        self.lib, self.fn, self.g = lib, fn, g
        self.keys = list(keys) + list(flags)
        self.flags = set(flags)
        self.idx = {k: i for i, k in enumerate(self.keys)}
        self.entry_state = entry_state or tuple(ANY if k in self.flags else MAYBE for k in self.keys)
        self.reports = []
        self.null_flags = {}

    def flag_value(self, e):
        return ZERO if zero_lit(e) else ANY

    def value(self, e, st):
        e0 = C.strip_casts(e)
        if e0 is not None and e0.get("k") == "Call" and _ptr_type(e0.get("t")) and returns_nonnull(self.lib, e0):
            return NONNULL
        return value_nullness(e, lambda k: st[self.idx[k]] if k in self.idx else None)

    def effects(self, a, st, node, sink):
        """Evaluate expression a in order: dereferences first reported then refined, then assignments."""
        st = list(st)
        for x in C.walk(a):
            k = x.get("k")
            tgt = None
            if k == "Mem" and x.get("arrow"):
                tgt = C.ref_key(C.strip_casts(x["b"]))
            elif k == "Un" and x.get("op") == "*":
                tgt = C.ref_key(C.strip_casts(x["x"]))
            elif k == "Idx":
                tgt = C.ref_key(C.strip_casts(x["a"]))
            elif k == "Call" and x.get("obj") is not None and x.get("arrow"):
                tgt = C.ref_key(C.strip_casts(x["obj"]))
            if tgt in self.idx and tgt not in self.flags:
                i = self.idx[tgt]
                if st[i] != NONNULL:
                    sink(tgt, x, node, st[i])
                if st[i] == NULL:
                    return None       # definitely null: the run ends here
                st[i] = NONNULL       # execution continues only if it was not null
            if k == "Bin" and x.get("op", "").endswith("=") and x["op"] not in ("==", "!=", "<=", ">=") and \
                    C.ref_key(x["a"]) in self.flags:
                st[self.idx[C.ref_key(x["a"])]] = self.flag_value(x["b"]) if x["op"] == "=" else ANY
            elif k == "Un" and x.get("op") in ("pre++", "post++", "pre--", "post--") and C.ref_key(x["x"]) in self.flags:
                st[self.idx[C.ref_key(x["x"])]] = ANY
            elif k == "Bin" and x.get("op") == "=" and C.ref_key(x["a"]) in self.idx:
                st[self.idx[C.ref_key(x["a"])]] = self.value(x["b"], tuple(st))
            elif k == "Call" and x.get("pt"):
                for arg, pt in zip(x["a"], x["pt"]):
                    kk = C.ref_key(arg)
                    if kk in self.idx and pt.rstrip().endswith("&") and not pt.startswith("const"):
                        st[self.idx[kk]] = MAYBE
            elif k == "Un" and x.get("op") == "&" and C.ref_key(x["x"]) in self.idx:
                st[self.idx[C.ref_key(x["x"])]] = MAYBE
        return tuple(st)

    def run(self):
        found = {}

        def sink(key, x, node, val):
            found.setdefault((key, id(x)), (key, x, node, val))

        def tr(node, st):
            if node.kind == "decl":
                # a bool local holding a null test of a tracked pointer is that test (is_restart = reader != nullptr)
                for d in node.ast["d"]:
                    if d.get("init") is not None and (d.get("t") or "").replace("const ", "").strip() == "bool":
                        t0 = null_test(d["init"]) if C.strip_casts(d["init"]).get("k") == "Bin" else None
                        if t0 and t0[0] in self.idx and t0[0] not in self.flags:
                            self.null_flags[("local", d["id"], d["n"])] = t0
                st = list(st)
                for d in node.ast["d"]:
                    if d.get("init") is not None:
                        r = self.effects(d["init"], tuple(st), node, sink)
                        if r is None:
                            return []
                        st = list(r)
                    k = ("local", d["id"], d["n"])
                    cf = cond_flag_init(d, set(self.idx) - self.flags, self.null_flags) if k in self.flags else None
                    if cf is not None:
                        # two outcomes: the test selected the non-zero arm (pointer as the test says) or the zero arm
                        pi = self.idx[cf[0]]
                        outs = []
                        for nonzero in (True, False):
                            nonnull = (cf[1] == nonzero)
                            if (st[pi] == NULL and nonnull) or (st[pi] == NONNULL and not nonnull):
                                continue
                            s2 = list(st)
                            s2[pi] = NONNULL if nonnull else NULL
                            s2[self.idx[k]] = ANY if nonzero else ZERO
                            outs.append((None, tuple(s2)))
                        if len(node.ast["d"]) == 1:
                            return outs
                    if k in self.flags:
                        st[self.idx[k]] = self.flag_value(d["init"]) if d.get("init") is not None else ANY
                    elif k in self.idx:
                        st[self.idx[k]] = self.value(d["init"], tuple(st)) if d.get("init") is not None else MAYBE
                return [(None, tuple(st))]
            if node.kind == "init":
                ini = node.ast
                if ini.get("x") is not None:
                    r = self.effects(ini["x"], st, node, sink)
                    if r is None:
                        return []
                    st = r
                mk = member_key(ini.get("member")) if ini.get("member") else None
                if mk in self.idx:
                    s2 = list(st)
                    s2[self.idx[mk]] = self.value(ini["x"], st) if ini.get("x") is not None else MAYBE
                    st = tuple(s2)
                return [(None, st)]
            if node.kind == "branch":
                ft = flag_test(node.ast)
                if ft and ft[0] in self.flags:
                    i = self.idx[ft[0]]
                    outs = []
                    for lab in (True, False):
                        nonzero = (ft[1] == lab)
                        if st[i] == ZERO and nonzero:
                            continue
                        s2 = list(st)
                        if not nonzero:
                            s2[i] = ZERO
                        outs.append((lab, tuple(s2)))
                    return outs
                t = null_test(node.ast)
                if t and t[0] in self.null_flags:
                    # the flag is true iff its pointer test holds
                    base = self.null_flags[t[0]]
                    t = (base[0], base[1] == t[1])
                if t and t[0] in self.idx and t[0] not in self.flags:
                    i = self.idx[t[0]]
                    outs = []
                    for lab in (True, False):
                        nonnull = (t[1] == lab)
                        if (st[i] == NULL and nonnull) or (st[i] == NONNULL and not nonnull):
                            continue
                        s2 = list(st)
                        s2[i] = NONNULL if nonnull else NULL
                        outs.append((lab, tuple(s2)))
                    return outs
            for a in node_exprs(node):
                st = self.effects(a, st, node, sink)
                if st is None:
                    return []
            return [(None, st)]

        self.ex = C.explore(self.g, self.entry_state, tr, max_states=2000000)
        # re-derive the reports with a witness state per site
        out = []
        for (key, _), (k, x, node, val) in found.items():
            out.append((k, x, node, val))
        return out


def groups_of(fn, keys):
    """Pointers that occur together in one `if` / loop condition are analysed jointly."""
    parent = {k: k for k in keys}

    def find(a):
        while parent[a] != a:
            a = parent[a]
        return a
    for s in C.walk_stmt(fn["body"]):
        if s.get("k") in ("If", "While", "For", "Do") and s.get("c") is not None:
            ks = {C.ref_key(x) for x in C.walk(s["c"]) if x.get("k") in ("Ref", "Mem")} & set(keys)
            ks = list(ks)
            for a in ks[1:]:
                parent[find(a)] = find(ks[0])
    out = {}
    for k in keys:
        out.setdefault(find(k), []).append(k)
    return list(out.values())


def member_key(name):
    return ("mem", ("this",), name)


def analyse_class(lib, unit, clsq):
    """Optional pointer members of a driver class: the abstract nullness of every pointer member is propagated from the
    constructors through every method (fixpoint over the set of member states at method boundaries; methods may be
    called in any order). Returns (reports, statistics)."""
    rec = unit.record(clsq)
    ptrs = [f["n"] for f in rec["fields"] if _ptr_type(f.get("t"))]
    keys = [member_key(n) for n in ptrs]
    methods = [m for m in unit.methods_of(clsq) if m.get("body") and not m.get("dependent")]
    ctors = [m for m in methods if m.get("ctor")]
    others = [m for m in methods if not m.get("ctor") and not m.get("dtor")]
    dtors = [m for m in methods if m.get("dtor")]
    if not ctors:
        raise AnalysisBroken("%s: no constructor with a body" % clsq)

    class WithInits(NullAnalysis):
        def run_from(self, entry):
            self.entry_state = entry
            return self.run()

    cache = {}

    def run_method(m, entry):
        k = (m["full"], entry)
        if k in cache:
            return cache[k]
        g = C.CFG(m)
        locs = sorted(candidates(m, g), key=str)
        fl = flag_locals(m, keys + locs)
        na = NullAnalysis(lib, m, g, keys + locs,
                          tuple(entry) + tuple(MAYBE for _ in locs) + tuple(ANY for _ in fl), flags=fl)
        nkeys = len(keys)
        found = {}
        # constructor initialisers
        orig_run = na.run

        reports = na.run_with_inits() if hasattr(na, "run_with_inits") else orig_run()
        exits = {st[:nkeys] for st in na.ex.at.get(g.exit.id, ())}
        cache[k] = (reports, exits, na)
        return cache[k]

    states = set()
    reports = {}
    for c in ctors:
        r, ex, na = run_method(c, tuple(MAYBE for _ in keys))
        states |= ex
        for k, x, node, val in r:
            reports[(c["full"], k, x.get("l"), x.get("c"))] = (c, k, x, node, val, na)
    changed = True
    rounds = 0
    while changed and rounds < 8:
        changed = False
        rounds += 1
        for m in others:
            for st in list(states):
                r, ex, na = run_method(m, st)
                for k, x, node, val in r:
                    reports.setdefault((m["full"], k, x.get("l"), x.get("c")), (m, k, x, node, val, na))
                if not m.get("const"):
                    new = ex - states
                    if new:
                        states |= new
                        changed = True
    for m in dtors:
        for st in list(states):
            r, ex, na = run_method(m, st)
            for k, x, node, val in r:
                reports.setdefault((m["full"], k, x.get("l"), x.get("c")), (m, k, x, node, val, na))
    return list(reports.values()), {"members": ptrs, "boundary_states": len(states), "methods": len(methods)}


def class_null_tested_members(lib, clsq, names):
    """Members of the class that some member function compares with nullptr / tests as a boolean."""
    out = set()
    for m in lib.methods_of(clsq):
        if not m.get("body"):
            continue
        for s in C.walk_stmt(m["body"]):
            conds = []
            if s.get("k") in ("If", "While", "For", "Do") and s.get("c") is not None:
                conds.append(s["c"])
            for c in conds:
                for x in C.walk(c):
                    t = null_test(x) if x.get("k") in ("Bin", "Ref", "Mem") else None
                    if t and t[0] and t[0][0] == "mem" and t[0][1] == ("this",) and t[0][2] in names:
                        if x.get("k") == "Bin" or _ptr_type(x.get("t")):
                            out.add(t[0][2])
    return out


def rule_M3(chk, prog):
    """Belief contradiction: a pointer the code itself compares with nullptr is dereferenced on a path on which it may
    be null (no dominating non-null test, allocation, or correlated guard)."""
    lib = prog.library()
    n = 0
    # (a) locals of the RHD driver and of the ionization driver's methods
    for unit_name, fq in (("TaskBasedRadiationHydrodynamicsSimulation.cpp",
                           "TaskBasedRadiationHydrodynamicsSimulation::do_simulation"),):
        u = prog.unit(unit_name)
        fn = u.func(fq)
        chk.analysed(function=fn["full"])
        g = C.CFG(fn)
        cands = candidates(fn, g)
        if len(cands) < 6:
            raise AnalysisBroken("%s: only %d optional pointer locals recognised" % (fq, len(cands)))
        for gr in groups_of(fn, sorted(cands, key=str)):
            fl = flag_locals(fn, gr)
            na = NullAnalysis(lib, fn, g, gr, flags=fl)
            reports = na.run()
            bykey = {}
            for k, x, node, val in reports:
                bykey.setdefault(k, []).append((x, node, val))
            for k in gr:
                n += 1
                rs = bykey.get(k, [])
                if not rs:
                    chk.ok("M3", "%s: optional component `%s` is dereferenced only where it cannot be null" %
                           (fq.split("::")[-1], k[2]), where(cands[k][1], fn))
                for x, node, val in rs:
                    callee = x.get("n") or x.get("k")
                    wit = [st for st in na.ex.at.get(node.id, ()) if st[na.idx[k]] != NONNULL]
                    path = na.ex.path_lines(node.id, wit[0]) if wit else []
                    chk.fail("M3", "%s: `%s` may be null when `%s->%s` is evaluated (line %s)" %
                             (fq.split("::")[-1], k[2], k[2], callee, x.get("l")), where(x, fn),
                             "the function compares `%s` with nullptr elsewhere (so null is a legal state) but this "
                             "dereference is reached with the pointer %s, e.g. through lines %s" %
                             (k[2], "null" if val == NULL else "possibly null", path[-12:]),
                             function=fn["full"], construct="%s->%s" % (k[2], callee))
    # (b) pointer members of the ionization driver
    clsq = "TaskBasedIonizationSimulation"
    reports, stats = analyse_class(lib, lib, clsq)
    tested = class_null_tested_members(lib, clsq, set(stats["members"]))
    if len(tested) < 4:
        raise AnalysisBroken("%s: only %d null-tested pointer members recognised" % (clsq, len(tested)))
    chk.extra["M3_ionization_driver"] = {"pointer_members": stats["members"], "null_tested": sorted(tested),
                                         "boundary_states": stats["boundary_states"]}
    by = {}
    for m, k, x, node, val, na in reports:
        if k[0] == "mem" and k[2] in tested:
            by.setdefault(k[2], []).append((m, x, node, val, na))
        elif k[0] == "local":
            by.setdefault(k[2], []).append((m, x, node, val, na))
    for name in sorted(tested):
        n += 1
        rs = by.get(name, [])
        if not rs:
            chk.ok("M3", "%s: optional member `%s` is dereferenced only where it cannot be null" % (clsq, name), clsq)
        for m, x, node, val, na in rs:
            callee = x.get("n") or x.get("k")
            chk.fail("M3", "%s: member `%s` may be null when dereferenced at line %s" % (m["full"].split("(")[0], name,
                                                                                         x.get("l")), where(x, m),
                     "the class compares `%s` with nullptr elsewhere but this dereference is reached with the member %s" %
                     (name, "null" if val == NULL else "possibly null"), function=m["full"],
                     construct="%s->%s" % (name, callee))
    return n


# ---------------------------------------------------------------------------------------------
# M4: the fixed task arrays handed to TaskContext::execute are written under their bound

def const_eval(e):
    e = C.strip_casts(e)
    if e is None:
        return None
    v = C.const_int(e)
    if v is not None:
        return v
    if e.get("k") == "Bin" and e.get("op") in ("+", "-", "*"):
        a, b = const_eval(e["a"]), const_eval(e["b"])
        if a is None or b is None:
            return None
        return a + b if e["op"] == "+" else a - b if e["op"] == "-" else a * b
    return None


def trip_count(loop):
    """Trip count of `for (T i = c0; i < c1; ++i)` / `for (T i = c0; i >= c1; --i)` with constant bounds, else None."""
    init, cond, inc = loop.get("init"), loop.get("c"), loop.get("inc")
    if not init or init.get("k") != "Decl" or len(init["d"]) != 1 or cond is None or inc is None:
        return None, None
    d = init["d"][0]
    key = ("local", d["id"], d["n"])
    c0 = const_eval(d.get("init"))
    cond = C.strip_casts(cond)
    inc = C.strip_casts(inc)
    if c0 is None or cond.get("k") != "Bin" or C.ref_key(cond["a"]) != key:
        return None, None
    c1 = const_eval(cond["b"])
    if c1 is None or inc.get("k") != "Un" or C.ref_key(inc["x"]) != key:
        return None, None
    up = inc["op"] in ("pre++", "post++")
    if up and cond["op"] == "<":
        return max(0, c1 - c0), key
    if up and cond["op"] == "<=":
        return max(0, c1 - c0 + 1), key
    if not up and cond["op"] == ">=":
        return max(0, c0 - c1 + 1), key
    if not up and cond["op"] == ">":
        return max(0, c0 - c1), key
    return None, None


def rule_M4(chk, prog):
    lib = prog.library()
    n = 0
    sizes = {}
    # the arrays as declared by the worker loops
    for unit_name, fq in (("TaskBasedIonizationSimulation.cpp", "TaskBasedIonizationSimulation::run"),
                          ("TaskBasedRadiationHydrodynamicsSimulation.cpp",
                           "TaskBasedRadiationHydrodynamicsSimulation::do_simulation")):
        fn = prog.unit(unit_name).func(fq)
        arrays = {}
        for s in C.walk_stmt(fn["body"]):
            if s.get("k") == "Decl":
                for d in s["d"]:
                    t = d.get("t") or ""
                    if t.endswith("]") and "[" in t and d["n"] in ("tasks_to_add", "queues_to_add"):
                        try:
                            arrays[("local", d["id"], d["n"])] = int(t[t.rindex("[") + 1:-1])
                        except ValueError:
                            raise AnalysisBroken("%s: size of %s not constant (%s)" % (fq, d["n"], t))
        if len(arrays) != 2:
            raise AnalysisBroken("%s: the two fixed task arrays of the worker loop were not found" % fq)
        # they are passed to the virtual execute
        pos = {}
        for s in C.walk_stmt(fn["body"]):
            for x in C.walk(s) if s.get("k") not in ("Block", "If", "For", "While", "Do", "ForRange", "Switch") else ():
                if C.is_call(x, name="execute") and (x.get("cls") or "").startswith("TaskContext"):
                    for i, a in enumerate(x["a"]):
                        if C.ref_key(a) in arrays:
                            pos[i] = arrays[C.ref_key(a)]
        if len(pos) != 2:
            raise AnalysisBroken("%s: the task arrays are not passed to TaskContext::execute" % fq)
        sizes[fq] = pos
        n += 1
        chk.ok("M4", "%s: arrays of %s entries are handed to TaskContext::execute at argument positions %s" %
               (fq.split("::")[-1], sorted(set(pos.values())), sorted(pos)), where(fn))
    size = min(min(p.values()) for p in sizes.values())
    positions = sorted(set(i for p in sizes.values() for i in p))
    # every override of execute
    seen = set()
    for d in lib.decls:
        if d["kind"] != "function" or d["name"] != "execute" or not d.get("body") or d.get("dependent"):
            continue
        if len(d["params"]) <= max(positions) or not all(_ptr_type(d["params"][i]["t"]) for i in positions):
            continue
        if d["full"] in seen:
            continue
        seen.add(d["full"])
        chk.analysed(function=d["full"])
        pkeys = {("local", d["params"][i]["id"], d["params"][i]["n"]) for i in positions}
        g = C.CFG(d)
        writes = []     # (node, index expr)
        for node in g.nodes:
            for a in node_exprs(node):
                for x in C.walk(a):
                    if x.get("k") == "Bin" and x.get("op") == "=" and C.strip_casts(x["a"]).get("k") == "Idx" and \
                            C.ref_key(C.strip_casts(x["a"])["a"]) in pkeys:
                        writes.append((node, C.strip_casts(x["a"])["i"], x))
        if not writes:
            continue
        counters = set()
        for node, idx, x in writes:
            ci = const_eval(idx)
            if ci is not None:
                n += 1
                chk.require(0 <= ci < size, "M4", "%s: literal index %d into a task array of %d entries (line %s)" %
                            (d["cls"], ci, size, x.get("l")), where(x, d), "index out of bounds", function=d["full"],
                            construct="literal index")
            else:
                k = C.ref_key(idx)
                if k is None:
                    n += 1
                    chk.fail("M4", "%s: task array index at line %s" % (d["cls"], x.get("l")), where(x, d),
                             "the index `%s` is neither a literal nor a counter variable" % C.pretty(idx),
                             function=d["full"], construct="index form")
                else:
                    counters.add(k)
        for ck in sorted(counters, key=str):
            # counter protocol: starts at 0, only ++, bounded number of increments, every write followed by ++
            incs, others, inits = [], [], []
            for node in g.nodes:
                if node.kind == "decl":
                    for dd in node.ast["d"]:
                        if ("local", dd["id"], dd["n"]) == ck:
                            inits.append(const_eval(dd.get("init")))
                for a in node_exprs(node):
                    for x in C.walk(a):
                        if x.get("k") == "Un" and x.get("op") in ("pre++", "post++") and C.ref_key(x["x"]) == ck:
                            incs.append(node)
                        elif x.get("k") == "Un" and x.get("op") in ("pre--", "post--") and C.ref_key(x["x"]) == ck:
                            others.append(x)
                        elif x.get("k") == "Bin" and x.get("op", "").endswith("=") and \
                                x["op"] not in ("==", "!=", "<=", ">=") and C.ref_key(x["a"]) == ck:
                            others.append(x)
            n += 1
            chk.require(inits == [0] and not others, "M4", "%s: the write counter `%s` starts at 0 and is only incremented by 1" %
                        (d["cls"], ck[2]), where(d), "initial values %s, other modifications at lines %s" %
                        (inits, [o.get("l") for o in others]), function=d["full"], construct="counter %s protocol" % ck[2])
            # bound on the number of increments: per constant loop, at most one increment per iteration
            loops = []

            def collect(s, stack):
                k = s.get("k")
                if k in ("For", "While", "Do", "ForRange"):
                    stack = stack + [s]
                if k not in ("Block", "If", "For", "While", "Do", "ForRange", "Switch", "Case", "Default", "OMP",
                             "Captured", "Try"):
                    for x in C.walk(s):
                        if x.get("k") == "Un" and x.get("op") in ("pre++", "post++") and C.ref_key(x["x"]) == ck:
                            loops.append((x, list(stack)))
                    return
                for key in ("s",):
                    for c in s.get(key, []) or []:
                        collect(c, stack)
                for key in ("th", "el", "body", "init"):
                    if s.get(key):
                        collect(s[key], stack)
            collect(d["body"], [])
            total = 0
            okb = True
            why = ""
            per_loop = {}
            free = 0
            for x, stack in loops:
                if not stack:
                    free += 1
                elif len(stack) == 1 and stack[0].get("k") == "For":
                    per_loop.setdefault(id(stack[0]), [stack[0], 0])[1] += 1
                else:
                    okb = False
                    why = "an increment at line %s sits in a nested / non-counting loop" % x.get("l")
            for lid, (loop, cnt) in per_loop.items():
                tc, lvar = trip_count(loop)
                if tc is None:
                    okb = False
                    why = "the loop at line %s has no constant trip count" % loop.get("l")
                    continue
                # per-iteration maximum: explore the function CFG from the loop head marker until it is seen again
                heads = [nd for nd in g.nodes if nd.kind == "marker" and nd.info == "loophead" and nd.ast is loop]
                if not heads:
                    okb = False
                    why = "loop head of line %s not found in the CFG" % loop.get("l")
                    continue
                h = heads[0]

                def tr(node, st, h=h):
                    if node.id == h.id and st != "start":
                        return []
                    k = 0 if st == "start" else st
                    for a in node_exprs(node):
                        for y in C.walk(a):
                            if y.get("k") == "Un" and y.get("op") in ("pre++", "post++") and C.ref_key(y["x"]) == ck:
                                k += 1
                    return [(None, min(k, 40))]
                ex = C.explore(g, "start", tr, start=h.id)
                back = [st for st in ex.at.get(h.id, ()) if st != "start"]
                per_iter = max(back) if back else 0
                total += tc * per_iter
                # the loop variable must not be modified in the body
                for y in C.walk_stmt(loop["body"]):
                    for z in C.walk(y) if y.get("k") not in ("Block", "If", "For", "While", "Do", "ForRange", "Switch") else ():
                        if z.get("k") == "Bin" and z.get("op", "").endswith("=") and z["op"] not in ("==", "!=", "<=", ">=") \
                                and C.ref_key(z["a"]) == lvar:
                            okb = False
                            why = "the loop variable is modified in the body (line %s)" % z.get("l")
            total += free
            n += 1
            chk.require(okb and total <= size, "M4", "%s: at most %d entries of the %d-entry task arrays are written per task" %
                        (d["cls"], total, size), where(d), why or "up to %d increments of `%s` are possible, the arrays "
                        "hold %d entries (bounds are only asserted, and asserts are compiled out)" % (total, ck[2], size),
                        function=d["full"], construct="counter %s bound" % ck[2])
            # every write through the counter is followed by an increment on every path to the exit
            incset = {nd.id for nd in incs}
            for node, idx, x in writes:
                if C.ref_key(idx) != ck:
                    continue
                n += 1
                chk.require(node.id in incset or g.all_paths_pass(node.id, incset, g.exit.id), "M4",
                            "%s: the entry written at line %s is counted (`++%s` follows on every path)" %
                            (d["cls"], x.get("l"), ck[2]), where(x, d), "a path from this write reaches the end of the task "
                            "without incrementing `%s`: the next write overwrites the entry and the bound argument (index <= "
                            "number of increments so far) is lost" % ck[2], function=d["full"],
                            construct="write counted")
    return n


# ---------------------------------------------------------------------------------------------
# M6: what the destructor deletes is deleted nowhere else without the slot being re-assigned

def member_root(e, aliases=None, depth=0):
    """Name of the this->member an expression is rooted at (m, m[i], *m, m->at(i) ...), following local aliases."""
    e = C.strip_casts(e)
    if e is None or depth > 6:
        return None
    k = e.get("k")
    mn = C.member_name(e)
    if mn:
        return mn
    if k == "Idx":
        return member_root(e["a"], aliases, depth + 1)
    if k == "Un" and e.get("op") in ("*", "&"):
        return member_root(e["x"], aliases, depth + 1)
    if k == "Call" and e.get("obj") is not None and (e.get("op") in ("[]", "*", "->") or e.get("n") in
                                                     ("at", "front", "back", "get", "data")):
        return member_root(e["obj"], aliases, depth + 1)
    if k == "Ref" and aliases and "id" in e and e["id"] in aliases:
        return aliases[e["id"]]
    return None


def rule_M6(chk, lib):
    n = 0
    seen = set()
    for rec in lib.decls:
        if rec["kind"] != "record" or rec.get("dependent"):
            continue
        clsq = rec["qname"]
        if clsq in seen or not (rec.get("file") or "").startswith(prog_src()):
            continue
        seen.add(clsq)
        methods = [m for m in lib.methods_of(clsq) if m.get("body") and not m.get("dependent")]
        dtors = [m for m in methods if m.get("dtor")]
        if not dtors:
            continue
        owned = {}
        for dt in dtors:
            for s in C.walk_stmt(dt["body"]):
                if s.get("k") == "Delete":
                    r = member_root(s["x"])
                    if r:
                        owned.setdefault(r, s)
        if not owned:
            continue
        for m in methods:
            if m.get("dtor"):
                continue
            g = None
            # local aliases of owned members: T *p = member[...]
            aliases = {}
            for s in C.walk_stmt(m["body"]):
                if s.get("k") == "Decl":
                    for d in s["d"]:
                        if d.get("init") is not None and _ptr_type(d.get("t")):
                            r = member_root(d["init"], aliases)
                            if r in owned:
                                aliases[d["id"]] = r
                if s.get("k") == "ForRange" and s.get("var") is not None:
                    r = member_root(s.get("range"), aliases) if s.get("range") else None
                    if r in owned and _ptr_type(s["var"].get("t")):
                        aliases[s["var"]["id"]] = r
            dels = []
            alias_decl = {}
            for s in C.walk_stmt(m["body"]):
                if s.get("k") == "Decl":
                    for d in s["d"]:
                        if d["id"] in aliases:
                            alias_decl[d["id"]] = s
            for s in C.walk_stmt(m["body"]):
                if s.get("k") == "Delete":
                    r = member_root(s["x"], aliases)
                    if r not in owned:
                        continue
                    op = C.strip_casts(s["x"])
                    via_alias = op.get("k") == "Ref" and op.get("id") in aliases
                    if C.member_name(op) == r:
                        # `delete member;` of a scalar owner: whether the member is re-created before the next delete /
                        # the destructor is the class's call protocol (reset() ... initialize()), not visible here
                        continue
                    dels.append((s, r, alias_decl.get(op.get("id")) if via_alias else None))
            if not dels:
                continue
            g = C.CFG(m)
            for dnode, r, adecl in dels:
                # the CFG node holding this delete (for an alias: the node of the alias declaration - a slot that is
                # re-assigned between taking the alias and deleting it no longer holds the deleted pointer)
                anchor = adecl if adecl is not None else dnode
                holder = [nd for nd in g.nodes if (nd.kind == "decl" and nd.ast is anchor) or
                          any(x is anchor for a in node_exprs(nd) for x in C.walk(a))]
                if not holder:
                    continue
                h = holder[0]

                def resets(nd, r=r):
                    for a in node_exprs(nd):
                        for x in C.walk(a):
                            if x.get("k") == "Bin" and x.get("op") == "=" and member_root(x["a"]) == r and \
                                    C.strip_casts(x["a"]).get("k") != "Ref":
                                return True
                            if x.get("k") == "Call" and x.get("op") == "=" and x.get("obj") is not None and \
                                    member_root(x["obj"]) == r:
                                return True
                            if x.get("k") == "Call" and x.get("obj") is not None and member_root(x["obj"]) == r and \
                                    x.get("n") in ("erase", "clear", "pop_back", "resize", "swap", "assign"):
                                return True
                    return False
                rs = {nd.id for nd in g.nodes if resets(nd)}
                n += 1
                okk = h.id in rs or g.all_paths_pass(h.id, rs)
                chk.require(okk, "M6", "%s::%s deletes what `%s` owns (line %s) and re-assigns / removes the slot on every path" %
                            (clsq, m["name"], r, dnode.get("l")), where(dnode, m),
                            "the destructor of %s deletes the objects held in `%s`; this function deletes one of them too and a path "
                            "reaches its end without assigning the slot or removing the element (clearing a local copy of the "
                            "pointer does not count): the destructor frees it a second time" % (clsq, r),
                            function=m["full"], construct="second owner of %s" % r)
    return n


def prog_src():
    import os
    from ..astdb import REPO
    return os.path.join(REPO, "src")
