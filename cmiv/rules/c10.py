"""C10 - hydro results do not depend on subgrid layout or number of threads.

Decides that the internal sweeps plus one pair sweep per subgrid pair visit exactly the faces of the
undivided grid, each with the two geometrically adjacent cells, that gradient and flux sweeps agree on
this, that tasks are dispatched to the sweep of their kind, and (with the C07 graph rules re-run here)
that every sweep touching a subgrid is ordered before the subgrid's next phase - the structural content
of "equals a plain sequential execution of the sweeps" (DESIGN.md C10). Round-off of the summation order
and single-thread bit reproducibility are not decided.
 S1 internal sweeps: per axis one loop nest over 0 <= i_a < N_a-1, 0 <= i_b < N_b with cells idx(i), idx(i+e_a);
 S2 pair / ghost tables: per face the left image is the boundary layer i_a = N_a-1 of the left grid, the right
    image the layer i_a = 0 of the right grid, same (column,row) map, this/neighbour per side, axis quantities of a;
 S3 gradient and flux tables agree row by row; S4 task types dispatch to the sweep of the matching kind;
 O  ordering / exclusivity premises of the task graph (C07 rules G1, G2, G4, G8) hold.
"""
import sympy as sp

from .. import cfg as C
from ..astdb import AnalysisBroken, where
from ..sym import Converter, Env, S
from ..tables import Directions, switch_arms, arm_aborts
from .c02 import axis_subscripts
from . import c10_commute

N = [S("N0", integer=True, positive=True), S("N1", integer=True, positive=True), S("N2", integer=True, positive=True)]
N3 = S("N3", integer=True, positive=True)
STRIDE = [N3, N[2], sp.Integer(1)]


def member_atoms(key, e):
    if key is None:
        return None
    if key[0] == "i" and key[1] == ("m", "_number_of_cells"):
        return N[key[2]] if key[2] < 3 else N3
    if key[0] == "i" and key[1] == ("m", "_cell_size"):
        return S("dx%d" % key[2], positive=True)
    if key[0] == "i" and key[1] == ("m", "_inv_cell_size"):
        return 1 / S("dx%d" % key[2], positive=True)
    if key[0] == "i" and key[1] == ("m", "_cell_areas"):
        return S("A%d" % key[2], positive=True)
    return None


def check_index_formula(chk, u):
    """idx(x,y,z) = x*N3 + y*N2 + z and N3 = N1*N2, taken from the code."""
    fn = u.func("DensitySubGrid::get_one_index")
    chk.analysed(function=fn["full"])
    conv = Converter(atoms=member_atoms, integer=True)
    env = Env()
    x, y, z = S("x", integer=True), S("y", integer=True), S("z", integer=True)
    pk = ("l", fn["params"][0]["id"])
    for i, s in enumerate((x, y, z)):
        env.vals[("i", pk, i)] = s
    rets = [s for s in C.walk_stmt(fn["body"]) if s.get("k") == "Return"]
    if len(rets) != 1:
        raise AnalysisBroken("get_one_index: expected one return")
    e = conv.conv(rets[0]["x"], env)
    chk.require(sp.expand(e - (x * N3 + y * N[2] + z)) == 0, "S1", "cell index is x*N3 + y*N2 + z", where(fn),
                "get_one_index returns %s" % e, function=fn["full"], construct="index formula")
    # N3 = N1 * N2 in every constructor that sets it
    n = 0
    for ct in [m for m in u.methods_of("DensitySubGrid") if m.get("ctor") and not m.get("copyctor")]:
        for xx in C.walk_stmt(ct["body"]):
            if xx.get("k") == "Bin" and xx["op"] == "=":
                subs = axis_subscripts(xx["a"], {"_number_of_cells"})
                if subs == [("_number_of_cells", 3)]:
                    r = sorted(axis_subscripts(xx["b"], {"_number_of_cells", "ncell", "number_of_cells"}))
                    n += 1
                    chk.require(C.strip_casts(xx["b"]).get("k") == "Bin" and C.strip_casts(xx["b"])["op"] == "*" and
                                sorted(i for _, i in r) == [1, 2], "S1",
                                "%s sets the x stride N3 = N1*N2" % ct["full"], where(xx, ct),
                                "_number_of_cells[3] = %s" % C.pretty(xx["b"]), function=ct["full"],
                                construct="x stride")
    if n == 0:
        raise AnalysisBroken("no constructor sets _number_of_cells[3]")


class _NestExec:
    """Symbolic executor for the internal sweep functions: constant loops (over the axes) are executed iteration by
    iteration, loops with a symbolic bound bind their variable to a symbol with a recorded range and execute the body
    once; every call to the face routine is recorded with its evaluated arguments and the loop ranges around it."""

    def __init__(self, fn, callee):
        self.fn = fn
        self.callee = callee
        self.records = []
        self.conv = Converter(atoms=member_atoms, integer=True)
        self.nsym = 0

    def sym_env(self, env):
        e = Env()
        for k, v in env.items():
            if isinstance(v, (sp.Basic, int)) and not isinstance(v, bool):
                e.vals[("l", k)] = sp.Integer(v) if isinstance(v, int) else v
        return e

    def subst(self, e, env):
        """Copy of e with concrete integer locals replaced by literals and elements of local arrays by their values."""
        if isinstance(e, dict):
            if e.get("k") == "Ref" and "id" in e and isinstance(env.get(e["id"]), (int, sp.Integer)) and \
                    not isinstance(env.get(e["id"]), bool):
                return {"k": "Int", "v": int(env[e["id"]]), "l": e.get("l")}
            if e.get("k") == "Idx":
                b = C.strip_casts(e["a"])
                if b.get("k") == "Ref" and isinstance(env.get(b.get("id")), list):
                    i = self.value(e["i"], env)
                    if isinstance(i, (int, sp.Integer)) and 0 <= int(i) < len(env[b["id"]]):
                        v = env[b["id"]][int(i)]
                        return {"k": "SymVal", "val": v, "l": e.get("l")}
            return {k2: self.subst(x, env) for k2, x in e.items()}
        if isinstance(e, list):
            return [self.subst(x, env) for x in e]
        return e

    def value(self, e, env):
        e0 = C.strip_casts(e)
        ci = C.const_int(e0)
        if ci is not None and e0.get("k") != "Ref":
            return ci
        if e0.get("k") == "Ref" and "id" in e0 and e0["id"] in env and not isinstance(env[e0["id"]], list):
            return env[e0["id"]]
        if e0.get("k") == "Idx":
            b = C.strip_casts(e0["a"])
            if b.get("k") == "Ref" and isinstance(env.get(b.get("id")), list):
                i = self.value(e0["i"], env)
                if isinstance(i, (int, sp.Integer)) and 0 <= int(i) < len(env[b["id"]]):
                    return env[b["id"]][int(i)]
        sub = self.subst(e0, env)
        old_atoms = self.conv.atoms

        def atoms(key, x):
            xx = C.strip_casts(x)
            if xx.get("k") == "SymVal":
                return xx["val"]
            return old_atoms(key, x) if old_atoms else None
        self.conv.atoms = atoms
        old_conv = self.conv.conv

        def conv2(x, en):
            xx = C.strip_casts(x)
            if xx is not None and xx.get("k") == "SymVal":
                v = xx["val"]
                return sp.Integer(v) if isinstance(v, int) else v
            return old_conv(x, en)
        self.conv.conv = conv2
        try:
            r = self.conv.conv(sub, self.sym_env(env))
        finally:
            self.conv.conv = old_conv
            self.conv.atoms = old_atoms
        if isinstance(r, sp.Integer):
            return int(r)
        return r

    def truth(self, e, env):
        e0 = C.strip_casts(e)
        if e0.get("k") == "Bin" and e0["op"] in ("<", "<=", ">", ">=", "==", "!="):
            a2, b2 = self.value(e0["a"], env), self.value(e0["b"], env)
            if isinstance(a2, int) and isinstance(b2, int):
                return {"<": a2 < b2, "<=": a2 <= b2, ">": a2 > b2, ">=": a2 >= b2, "==": a2 == b2, "!=": a2 != b2}[e0["op"]]
        return None

    def run(self, st, env, ranges):
        k = st.get("k")
        if k == "Block":
            if st.get("mac"):
                return
            inner = dict(env)
            for c2 in st.get("s", []):
                self.run(c2, inner, ranges)
            for key in env:
                env[key] = inner[key]
        elif k == "Decl":
            for d in st["d"]:
                init = C.strip_casts(d["init"]) if d.get("init") is not None else None
                if init is not None and init.get("k") == "InitList":
                    env[d["id"]] = [self.value(x, env) for x in init["a"]]
                elif init is not None:
                    try:
                        env[d["id"]] = self.value(init, env)
                    except AnalysisBroken:
                        env[d["id"]] = None
        elif k == "For":
            inner = dict(env)
            if st.get("init") is not None:
                self.run(st["init"], inner, ranges)
            d0 = st["init"]["d"][0] if st.get("init") and st["init"].get("k") == "Decl" else None
            c = C.strip_casts(st.get("c")) if st.get("c") is not None else None
            t = self.truth(c, inner) if c is not None else None
            if t is not None:
                it = 0
                while self.truth(c, inner):
                    self.run(st["body"], inner, ranges)
                    if st.get("inc") is not None:
                        self.run(st["inc"], inner, ranges)
                    it += 1
                    if it > 16:
                        raise AnalysisBroken("%s: constant loop longer than 16 iterations" % self.fn["full"])
            else:
                if d0 is None or c is None or c.get("k") != "Bin" or c["op"] != "<" or \
                        C.strip_casts(c["a"]).get("id") != d0["id"]:
                    raise AnalysisBroken("%s: loop at line %s is not `for (v = a; v < b; ++v)`" % (self.fn["full"], st.get("l")))
                inc = C.strip_casts(st.get("inc")) if st.get("inc") is not None else None
                if not (inc is not None and inc.get("k") == "Un" and inc["op"] in ("pre++", "post++") and
                        C.strip_casts(inc["x"]).get("id") == d0["id"]):
                    raise AnalysisBroken("%s: loop at line %s does not step by one" % (self.fn["full"], st.get("l")))
                start = inner.get(d0["id"])
                ub = self.value(c["b"], inner)
                self.nsym += 1
                sv = S("i%d" % self.nsym, integer=True)
                inner[d0["id"]] = sv
                self.run(st["body"], inner, ranges + [(sv, start, ub, st)])
            for key in env:
                env[key] = inner[key]
        elif k == "If":
            t = self.truth(st["c"], env)
            if t is None:
                raise AnalysisBroken("%s: condition at line %s is not decided" % (self.fn["full"], st.get("l")))
            if t:
                self.run(st["th"], env, ranges)
            elif st.get("el") is not None:
                self.run(st["el"], env, ranges)
        elif k == "Bin" and st["op"] in ("=", "+=", "-="):
            tgt = C.strip_casts(st["a"])
            val = self.value(st["b"], env)
            if tgt.get("k") == "Ref" and "id" in tgt:
                cur = env.get(tgt["id"])
                env[tgt["id"]] = val if st["op"] == "=" else (cur + val if st["op"] == "+=" else cur - val)
            elif tgt.get("k") == "Idx" and C.strip_casts(tgt["a"]).get("k") == "Ref" and \
                    isinstance(env.get(C.strip_casts(tgt["a"]).get("id")), list):
                i = self.value(tgt["i"], env)
                arr = list(env[C.strip_casts(tgt["a"])["id"]])
                if not isinstance(i, int):
                    raise AnalysisBroken("%s: array element with a symbolic index is assigned (line %s)" %
                                         (self.fn["full"], st.get("l")))
                arr[i] = val if st["op"] == "=" else (arr[i] + val if st["op"] == "+=" else arr[i] - val)
                env[C.strip_casts(tgt["a"])["id"]] = arr
        elif k == "Un" and st["op"] in ("pre++", "post++", "pre--", "post--"):
            tgt = C.strip_casts(st["x"])
            if tgt.get("k") == "Ref" and isinstance(env.get(tgt.get("id")), int):
                env[tgt["id"]] += 1 if "++" in st["op"] else -1
            elif tgt.get("k") == "Ref" and isinstance(env.get(tgt.get("id")), sp.Basic):
                env[tgt["id"]] = env[tgt["id"]] + (1 if "++" in st["op"] else -1)
            elif tgt.get("k") == "Idx" and C.strip_casts(tgt["a"]).get("k") == "Ref" and \
                    isinstance(env.get(C.strip_casts(tgt["a"]).get("id")), list):
                i = self.value(tgt["i"], env)
                if not isinstance(i, int):
                    raise AnalysisBroken("%s: array element with a symbolic index is stepped (line %s)" %
                                         (self.fn["full"], st.get("l")))
                arr = list(env[C.strip_casts(tgt["a"])["id"]])
                arr[i] = arr[i] + (1 if "++" in st["op"] else -1)
                env[C.strip_casts(tgt["a"])["id"]] = arr
            elif tgt.get("k") in ("Ref", "Idx"):
                raise AnalysisBroken("%s: `%s` steps a quantity the sweep evaluator does not track (line %s)" %
                                     (self.fn["full"], C.pretty(st)[:40], st.get("l")))
        elif k == "Call" and C.is_call(st, name=self.callee):
            args = st["a"]
            rec = {"call": st, "axis": self.value(args[0], env), "ranges": list(ranges), "env": dict(env)}

            def idx_of(a):
                a0 = C.strip_casts(a)
                if a0.get("k") == "Idx":
                    return self.value(a0["i"], env)
                return None
            rec["left"], rec["right"] = idx_of(args[1]), idx_of(args[2])
            geo = []
            for x in args[3:]:
                for y in C.walk(x):
                    yy = C.strip_casts(y)
                    if yy.get("k") == "Idx" and C.member_name(yy["a"]) in ("_cell_size", "_inv_cell_size", "_cell_areas"):
                        geo.append(self.value(yy["i"], env))
                    elif yy.get("k") == "Call" and yy.get("op") == "[]" and yy.get("obj") is not None and yy["a"] and \
                            C.member_name(yy["obj"]) in ("_cell_size", "_inv_cell_size", "_cell_areas"):
                        geo.append(self.value(yy["a"][0], env))
            rec["geo"] = geo
            self.records.append(rec)
        elif k in ("Null",):
            pass
        elif k == "Call" or k in ("Return",):
            pass
        elif k in ("While", "Do", "Switch", "RangeFor"):
            raise AnalysisBroken("%s: %s statement at line %s is not read by the sweep evaluator" % (self.fn["full"], k, st.get("l")))


def check_inner(chk, u, name, callee, spacing_member):
    fn = u.func("HydroDensitySubGrid::" + name)
    chk.analysed(function=fn["full"])
    ex = _NestExec(fn, callee)
    ex.run(fn["body"], {}, [])
    seen_axes = {}
    n = 0
    for rec in ex.records:
        axis, left, right, call = rec["axis"], rec["left"], rec["right"], rec["call"]
        inst = "%s axis %s" % (name, axis)
        loc = where(rec["ranges"][0][3], fn) if rec["ranges"] else where(call, fn)
        if left is None or right is None or axis not in (0, 1, 2) or len(rec["ranges"]) != 3:
            chk.fail("S1", inst, loc, "cannot read the two cell operands of %s inside a triple loop nest" % callee,
                     function=fn["full"], construct=inst)
            continue
        seen_axes[axis] = seen_axes.get(axis, 0) + 1
        syms = [r[0] for r in rec["ranges"]]
        coord = {}
        for sv in syms:
            co = sp.expand(left).coeff(sv, 1)
            for a in range(3):
                if sp.simplify(co - STRIDE[a]) == 0:
                    coord[a] = sv
        n += 1
        okk = len(coord) == 3 and sp.expand(left - sum(coord[a] * STRIDE[a] for a in range(3))) == 0
        chk.require(okk, "S1", "%s: left cell is idx(i)" % inst, loc, "left cell index is %s" % left,
                    function=fn["full"], construct=inst + " left")
        if not okk:
            continue
        n += 1
        chk.require(sp.expand(right - left - STRIDE[axis]) == 0, "S1", "%s: right cell is idx(i + e_%d)" % (inst, axis),
                    loc, "right - left = %s, expected the stride %s of axis %d" % (sp.expand(right - left), STRIDE[axis], axis),
                    function=fn["full"], construct=inst + " right")
        for a in range(3):
            sv, start, ub, lpst = [r for r in rec["ranges"] if r[0] == coord[a]][0]
            want = N[a] - 1 if a == axis else N[a]
            n += 1
            chk.require(start == 0 and ub is not None and sp.expand(ub - want) == 0, "S1",
                        "%s: coordinate %d runs over [0, %s)" % (inst, a, want), where(lpst, fn),
                        "coordinate %d runs from %s to %s" % (a, start, ub), function=fn["full"],
                        construct=inst + " range %d" % a)
        n += 1
        chk.require(bool(rec["geo"]) and set(rec["geo"]) == {axis}, "S1", "%s: spacing / area of axis %d" % (inst, axis), loc,
                    "geometric factors of axes %s are passed" % sorted(set(map(str, rec["geo"]))), function=fn["full"],
                    construct=inst + " spacing")
    n += 1
    chk.require(seen_axes == {0: 1, 1: 1, 2: 1}, "S1", "%s sweeps every axis exactly once" % name, where(fn),
                "loop nests per axis: %s" % seen_axes, function=fn["full"], construct=name + " axes")
    return n


def outer_table(fn, D, ghost):
    """Per face direction: the values of the table locals when the sweep loops start, obtained by partially evaluating
    the statements in front of the loop nest for that direction (switch arms, if / conditional expressions on the
    direction, flags, values hoisted out of or sunk below the switch)."""
    import copy
    dpar = [p for p in fn["params"] if p["n"] == "direction" or "int" in p["t"] and "direction" in p["n"]]
    if len(dpar) != 1:
        raise AnalysisBroken("%s: direction parameter not found" % fn["full"])
    dkey = dpar[0]["id"]
    top = fn["body"]["s"]
    loops = [i for i, s2 in enumerate(top) if s2.get("k") == "For"]
    if not loops:
        raise AnalysisBroken("%s: no loop nest" % fn["full"])
    prefix = top[:loops[0]]
    sws = [s2 for s2 in C.walk_stmt({"k": "Block", "s": prefix}) if s2.get("k") == "Switch"]
    arm_of = {}
    default = None
    if sws:
        _, arms0, default = switch_arms(fn, sws[0])
        arm_of = arms0

    def run_for(v):
        env = {}            # local id -> value
        names = {}          # local id -> name
        conv = Converter(atoms=member_atoms, integer=False)

        def subst(e):
            """Copy of e with locals that hold a concrete integer replaced by literals (for subscripts)."""
            if isinstance(e, dict):
                if e.get("k") == "Ref" and "id" in e:
                    if e["id"] == dkey:
                        return {"k": "Int", "v": v, "l": e.get("l")}
                    val = env.get(e["id"])
                    if isinstance(val, (int, sp.Integer)):
                        return {"k": "Int", "v": int(val), "l": e.get("l")}
                return {k2: subst(x) for k2, x in e.items()}
            if isinstance(e, list):
                return [subst(x) for x in e]
            return e

        def truth(e):
            e = C.strip_casts(e)
            k2 = e.get("k")
            if k2 == "Bool":
                return bool(e["v"])
            if k2 == "Ref" and "id" in e and isinstance(env.get(e["id"]), bool):
                return env[e["id"]]
            if k2 == "Un" and e["op"] == "!":
                t = truth(e["x"])
                return None if t is None else (not t)
            if k2 == "Bin" and e["op"] in ("||", "&&"):
                a2, b2 = truth(e["a"]), truth(e["b"])
                if e["op"] == "||":
                    return True if (a2 is True or b2 is True) else (False if (a2 is False and b2 is False) else None)
                return False if (a2 is False or b2 is False) else (True if (a2 is True and b2 is True) else None)
            if k2 == "Bin" and e["op"] in ("==", "!=", "<", ">", "<=", ">="):
                x, y = value(e["a"]), value(e["b"])
                if isinstance(x, (int, sp.Integer)) and isinstance(y, (int, sp.Integer)):
                    x, y = int(x), int(y)
                    return {"==": x == y, "!=": x != y, "<": x < y, ">": x > y, "<=": x <= y, ">=": x >= y}[e["op"]]
            return None

        def value(e):
            e0 = C.strip_casts(e)
            k2 = e0.get("k")
            if k2 == "This":
                return "this"
            if k2 == "Un" and e0["op"] == "&":
                return "neighbour" if C.strip_casts(e0["x"]).get("n") == "neighbour" else C.pretty(e0)
            if k2 == "Cond":
                t = truth(e0["c"])
                if t is None:
                    return C.pretty(e0)
                return value(e0["a"] if t else e0["b"])
            if k2 == "Ref" and "id" in e0:
                if e0["id"] == dkey:
                    return v
                if e0["id"] in env:
                    return env[e0["id"]]
            if k2 in ("Bool",):
                return bool(e0["v"])
            t = truth(e0) if k2 in ("Bin", "Un") and e0.get("op") in ("==", "!=", "||", "&&", "!") else None
            if t is not None:
                return t
            if k2 == "Ctor" and "CoordinateVector" in (e0.get("cls") or ""):
                return ("vec", [C.pretty(a2) for a2 in e0.get("a", [])])
            if k2 == "Ctor" or (k2 == "Call" and e0.get("op") == "="):
                return C.pretty(e0)
            ci = C.const_int(e0)
            if ci is not None:
                return ci
            try:
                cenv = Env()
                for did, val in env.items():
                    if isinstance(val, (sp.Basic, int)) and not isinstance(val, bool):
                        cenv.vals[("l", did)] = sp.Integer(val) if isinstance(val, int) else val
                r = conv.conv(subst(e0), cenv)
                if isinstance(r, sp.Integer):
                    return int(r)
                return r
            except AnalysisBroken:
                return C.pretty(e0)

        def run(st):
            k2 = st.get("k")
            if k2 == "Block":
                if st.get("mac"):
                    return
                for c2 in st.get("s", []):
                    run(c2)
            elif k2 == "Decl":
                for d in st["d"]:
                    names[d["id"]] = d["n"]
                    if d.get("init") is not None:
                        env[d["id"]] = value(d["init"])
            elif k2 == "Bin" and st["op"] == "=":
                t = C.strip_casts(st["a"])
                if t.get("k") == "Ref" and "id" in t:
                    names.setdefault(t["id"], t["n"])
                    env[t["id"]] = value(st["b"])
            elif k2 == "Call" and st.get("op") == "=" and st.get("obj") is not None and st["a"]:
                t = C.strip_casts(st["obj"])
                if t.get("k") == "Ref" and "id" in t:
                    names.setdefault(t["id"], t["n"])
                    env[t["id"]] = value(st["a"][0])
            elif k2 == "If":
                t = truth(st["c"])
                if t is None:
                    raise AnalysisBroken("%s: condition `%s` in front of the sweep loops does not depend on the direction only"
                                         % (fn["full"], C.pretty(st["c"])[:60]))
                if t:
                    run(st["th"])
                elif st.get("el") is not None:
                    run(st["el"])
            elif k2 == "Switch":
                sel = value(st["c"])
                _, arms2, dflt = switch_arms(fn, st)
                arm = arms2.get(sel, dflt)
                if arm is not None:
                    for s3 in arm["stmts"]:
                        run(s3)
            elif k2 in ("Null", "Break"):
                pass
            else:
                # other statements (assertions, logging) do not define table locals
                pass
        for s2 in prefix:
            run(s2)
        return {names[i]: val for i, val in env.items() if i in names}

    rows = {}
    for v in sorted(D.all27()):
        arm = arm_of.get(v)
        if sws and (arm is None or arm_aborts(arm)):
            continue
        row = run_for(v)
        rows[v] = (row, arm if arm is not None else {"line": fn.get("line"), "stmts": []})
    return rows, default


def check_outer(chk, u, D, name, callee, ghost):
    fn = u.func("HydroDensitySubGrid::" + name)
    chk.analysed(function=fn["full"])
    rows, default = outer_table(fn, D, ghost)
    n = 0
    table = {}
    # the loops after the switch
    calls = [x for x in C.walk_stmt(fn["body"]) if C.is_call(x, name=callee)]
    if len(calls) != 1:
        raise AnalysisBroken("%s: expected one %s call" % (fn["full"], callee))
    call = calls[0]
    loops = [s for s in fn["body"]["s"] if s.get("k") == "For"]
    if len(loops) != 1:
        raise AnalysisBroken("%s: expected one loop nest after the table" % fn["full"])
    outer = loops[0]
    inner = [s for s in C.walk_stmt(outer["body"]) if s.get("k") == "For"]
    if len(inner) != 1:
        raise AnalysisBroken("%s: expected a double loop" % fn["full"])
    lvars = [(outer["init"]["d"][0], C.strip_casts(outer["c"])), (inner[0]["init"]["d"][0], C.strip_casts(inner[0]["c"]))]
    # index expressions in terms of table locals
    idecls = {}
    for s in C.walk_stmt(inner[0]["body"]):
        if s.get("k") == "Decl":
            for d in s["d"]:
                idecls[d["n"]] = d
    for axis in range(3):
        for side in ("P", "N"):
            v = D.face(axis, side)
            inst = "%s(%s)" % (name, D.name(v))
            if v not in rows:
                n += 1
                chk.fail("S2", inst + " has a table row", where(fn), "no case for this face", function=fn["full"],
                         construct=inst)
                continue
            row, arm = rows[v]
            loc = "%s:%s" % (where(fn).split(":")[0], arm["line"])
            conv = Converter(integer=False)
            env = Env()
            # bind loop counters and table locals by name
            locs = {}
            names = {}
            for d, c in lvars:
                names[d["n"]] = S(d["n"], integer=True)

            def atoms(key, e):
                ee = C.strip_casts(e)
                if ee.get("k") == "Ref" and "id" in ee:
                    if ee["n"] in names:
                        return names[ee["n"]]
                    if ee["n"] in row and not isinstance(row[ee["n"]], (str, tuple)):
                        return row[ee["n"]]
                    if ee["n"] in idecls and idecls[ee["n"]].get("init") is not None:
                        return conv.conv(idecls[ee["n"]]["init"], env)
                return member_atoms(key, e)
            conv.atoms = atoms

            def idx_of(argexpr):
                e = C.strip_casts(argexpr)
                grid = "this"
                if e.get("k") == "Idx":
                    b = C.strip_casts(e["a"])
                    if b.get("k") == "Mem":
                        bb = C.strip_casts(b["b"])
                        if bb.get("k") == "Ref":
                            grid = row.get(bb["n"], bb["n"])
                    return grid, conv.conv(e["i"], env)
                return None, None
            try:
                if ghost:
                    hv = [a for a in call["a"] if C.strip_casts(a).get("k") == "Idx"]
                    lgrid, lidx = idx_of(hv[0])
                    rgrid, ridx = None, None
                else:
                    lgrid, lidx = idx_of(call["a"][1])
                    rgrid, ridx = idx_of(call["a"][2])
            except AnalysisBroken as ex:
                n += 1
                chk.fail("S2", inst, loc, "cannot evaluate the index expressions: %s" % ex, function=fn["full"],
                         construct=inst)
                continue
            ic, ir = names[lvars[0][0]["n"]], names[lvars[1][0]["n"]]

            def bound(cnd):
                b = C.strip_casts(cnd["b"])
                return conv.conv(b, env)
            cl, rl = bound(lvars[0][1]), bound(lvars[1][1])

            def image_ok(idx, layer_pos):
                e = sp.expand(idx)
                start = e.subs({ic: 0, ir: 0})
                ci, ri = e.coeff(ic, 1), e.coeff(ir, 1)
                want_start = (N[axis] - 1) * STRIDE[axis] if layer_pos == "high" else 0
                others = sorted([(str(STRIDE[b]), str(N[b])) for b in range(3) if b != axis])
                got = sorted([(str(sp.expand(ci)), str(sp.expand(cl))), (str(sp.expand(ri)), str(sp.expand(rl)))])
                return sp.expand(start - want_start) == 0 and got == others, (start, ci, cl, ri, rl)
            if ghost:
                pos = "high" if side == "P" else "low"
                okk, det = image_ok(lidx, pos)
                n += 1
                chk.require(okk, "S2", "%s sweeps the boundary layer i_%d = %s" %
                            (inst, axis, "N-1" if side == "P" else "0"), loc,
                            "start %s, column (%s x %s), row (%s x %s)" % det, function=fn["full"],
                            construct=inst + " layer")
            else:
                okl, detl = image_ok(lidx, "high")
                okr, detr = image_ok(ridx, "low")
                n += 1
                chk.require(okl, "S2", "%s: left cells are the layer i_%d = N-1 of the left grid" % (inst, axis), loc,
                            "start %s, column (%s x %s), row (%s x %s)" % detl, function=fn["full"],
                            construct=inst + " left layer")
                n += 1
                chk.require(okr and sp.expand((lidx - lidx.subs({ic: 0, ir: 0})) - (ridx - ridx.subs({ic: 0, ir: 0}))) == 0,
                            "S2", "%s: right cells are the layer i_%d = 0 of the right grid, same (column,row) map" %
                            (inst, axis), loc, "start %s, column (%s x %s), row (%s x %s)" % detr, function=fn["full"],
                            construct=inst + " right layer")
                want = ("this", "neighbour") if side == "P" else ("neighbour", "this")
                n += 1
                chk.require((lgrid, rgrid) == want, "S2", "%s: the left grid is %s" % (inst, want[0]), loc,
                            "left grid %s, right grid %s" % (lgrid, rgrid), function=fn["full"],
                            construct=inst + " grids")
            n += 1
            chk.require(row.get("i") == axis, "S2", "%s works along axis %d" % (inst, axis), loc,
                        "axis argument is %s" % row.get("i"), function=fn["full"], construct=inst + " axis")
            geo = {k: v for k, v in row.items() if k in ("dx", "A", "dxinv")}
            okg = True
            for k, vv in geo.items():
                fs = {str(s) for s in getattr(vv, "free_symbols", set())}
                okg = okg and fs == {("A%d" if k == "A" else "dx%d") % axis}
            n += 1
            chk.require(okg and geo, "S2", "%s uses the spacing / area of axis %d" % (inst, axis), loc,
                        "geometric factors: %s" % geo, function=fn["full"], construct=inst + " geometry")
            table[(axis, side)] = {k: (str(v) if not isinstance(v, tuple) else v) for k, v in row.items()
                                   if k not in ("offset",)}
    return n, table


def run(chk, prog):
    chk.explanation = (
        "The loop nests of the two internal sweeps and the 6-row tables of the four boundary sweeps are extracted and "
        "compared, with symbolic cell counts, against the cell index formula taken from the code: every interior face is "
        "visited once with its two adjacent cells, every subgrid interface is swept as (last layer of the left grid, first "
        "layer of the right grid) with one shared (column,row) map, gradient and flux sweeps agree, task types dispatch to "
        "the sweep of their kind, and the task graph orders every sweep touching a subgrid before that subgrid's next "
        "phase (C07 rules re-checked). Summation round-off and bit reproducibility are not decided.")
    chk.assumptions.append("A1: neighbour tables are mutual and geometrically correct")
    u = prog.umbrella
    chk.analysed(unit="umbrella")
    D = Directions(u)
    if D.problems or len(D.sig) != 27:
        raise AnalysisBroken("direction signatures unavailable (see C02-T1)")
    check_index_formula(chk, u)
    n1 = check_inner(chk, u, "inner_gradient_sweep", "do_gradient_calculation", "_inv_cell_size")
    n1 += check_inner(chk, u, "inner_flux_sweep", "do_flux_calculation", "_cell_size")
    chk.floor("S1", n1, 36)
    n2 = 0
    tabs = {}
    for name, callee, ghost in (("outer_gradient_sweep", "do_gradient_calculation", False),
                                ("outer_flux_sweep", "do_flux_calculation", False),
                                ("outer_ghost_gradient_sweep", "do_ghost_gradient_calculation", True),
                                ("outer_ghost_flux_sweep", "do_ghost_flux_calculation", True)):
        k, tabs[name] = check_outer(chk, u, D, name, callee, ghost)
        n2 += k
    chk.floor("S2", n2, 90)
    # S3 sibling agreement (index geometry only: the gradient sweep passes 1/dx, the flux sweep dx and A)
    n3 = 0
    for a, b in (("outer_gradient_sweep", "outer_flux_sweep"), ("outer_ghost_gradient_sweep", "outer_ghost_flux_sweep")):
        for key in sorted(tabs[a]):
            ra, rb = tabs[a][key], tabs[b].get(key, {})
            geo = ("i", "left_grid", "right_grid", "start_index_left", "start_index_right", "row_increment",
                   "row_length", "column_increment", "column_length")
            if "ghost" in a:
                geo = tuple(k for k in geo if "grid" not in k and k != "start_index_right")
            diff = {k: (ra.get(k), rb.get(k)) for k in geo if ra.get(k) != rb.get(k)}
            n3 += 1
            chk.require(not diff, "S3", "%s and %s agree for face %s%s" % (a, b, "xyz"[key[0]], key[1]),
                        "src/HydroDensitySubGrid.hpp", "the two sweeps visit different cells: %s" % diff,
                        function="HydroDensitySubGrid::" + b, construct="%s/%s %s" % (a, b, key))
    chk.floor("S3", n3, 12)
    # S4 dispatch
    from . import c07
    unit = prog.unit("TaskBasedRadiationHydrodynamicsSimulation.cpp")
    chk.analysed(unit=unit.name)
    ex = unit.func("execute_task")
    chk.analysed(function=ex["full"])
    dispatch = c07.extract_dispatch(ex)
    n4 = 0
    for typ, arm in sorted(dispatch.items()):
        m = arm["method"]
        call = arm["call"]
        kind_ok = ("GRADIENT" in typ) == ("gradient" in m) and ("FLUX" in typ) == ("flux" in m) and \
            ("INTERNAL" in typ) == m.startswith("inner_") and ("BOUNDARY" in typ) == ("ghost" in m) and \
            ("NEIGHBOUR" in typ) == (m.startswith("outer_") and "ghost" not in m)
        if "SWEEP" not in typ:
            kind_ok = {"TASKTYPE_SLOPE_LIMITER": "apply_slope_limiter", "TASKTYPE_PREDICT_PRIMITIVES":
                       "predict_primitive_variables", "TASKTYPE_UPDATE_CONSERVED": "update_conserved_variables",
                       "TASKTYPE_UPDATE_PRIMITIVES": "update_primitive_variables"}.get(typ) == m
        n4 += 1
        chk.require(kind_ok, "S4", "%s runs %s" % (typ, m), where(call, ex), "task type %s is dispatched to %s" % (typ, m),
                    function=ex["full"], construct="dispatch %s" % typ)
        if m.startswith("outer_"):
            # arguments may be passed through const locals / references initialised in the same function
            ldefs = {}
            for s2 in C.walk_stmt(ex["body"]):
                if s2.get("k") == "Decl":
                    for d in s2["d"]:
                        if d.get("init") is not None:
                            ldefs[d["id"]] = d["init"]

            def expand(e, depth=0):
                """All sub-expressions of e, looking through locals to their initialisers."""
                for x in C.walk(e):
                    yield x
                    if x.get("k") == "Ref" and x.get("id") in ldefs and depth < 4:
                        yield from expand(ldefs[x["id"]], depth + 1)
            a0 = C.strip_casts(call["a"][0])
            dir_ok = C.is_call(a0, name="get_interaction_direction", cls="Task") or \
                (a0.get("k") == "Ref" and a0.get("id") in ldefs and
                 C.is_call(C.strip_casts(ldefs[a0["id"]]), name="get_interaction_direction", cls="Task"))
            ngb_ok = True
            if "ghost" not in m:
                ngb_ok = any(C.is_call(x, name="get_buffer", cls="Task") for a in call["a"] for x in expand(a))
            n4 += 1
            chk.require(dir_ok and ngb_ok, "S4", "%s sweeps the face / neighbour stored in the task" % typ,
                        where(call, ex), "direction from the task: %s, neighbour from the task: %s" % (dir_ok, ngb_ok),
                        function=ex["full"], construct="dispatch args %s" % typ)
    chk.floor("S4", n4, 14)
    # O: ordering premises (C07 graph rules)
    from ..report import Check
    sub = Check("C07", "embedded", "other")
    c07.run(sub, prog)
    no = 0
    for o in sub.obligations:
        if o["rule"] in ("G1", "G2", "G4", "G8", "W1-W3", "W1", "W2"):
            no += 1
            if o["verdict"] == "VIOLATED":
                chk.fail("O-" + o["rule"], o["instance"], o["where"], o["detail"], function=o.get("function", ""),
                         construct=o.get("construct", ""))
    chk.ok("O", "task-graph ordering / exclusivity premises hold (%d C07 obligations G1, G2, G4, G8, W re-checked)" % no,
           "src/TaskBasedRadiationHydrodynamicsSimulation.cpp")
    chk.floor("O", no, 2000)
    # ---- S5: the sweeps of one phase commute -------------------------------------------------------------
    n5 = c10_commute.rule_S5(chk, prog.library())
    chk.floor("S5", n5, 10)
