"""C18 - atomic data are physical for all inputs (the clauses that do not depend on the shipped data tables).

Decided for every temperature / energy at once, by small abstract domains on the formulas in the code:
 Q1 charge transfer: in every arm of the three rate functions the temperature is clamped to a finite literal range and an
    interval evaluation of the arm's formula over that range (outward rounded, exp / pow by monotonicity) gives a finite,
    non-negative enclosure: the rate is finite and non-negative at every temperature;
 Q2 every reaction the ionization balance asks for has a non-aborting arm (call-site ion constants vs. case labels);
 Q3 recombination rates: every path of get_recombination_rate returns max(0, .): non-negative at every temperature;
 Q4 the hydrogen and helium recombination fits are strictly positive and strictly decreasing in T for all T > 0
    (sign x monotonicity domain on the expression tree);
 Q5 photoionization cross sections: `energy < threshold -> 0` is tested before anything else is computed, and every other
    return is 0 or sigma_0 x (a sum of squares) x powers of positive bases: non-negative whenever the table entries
    sigma_0, y_w^2, 1/y_a, 1/E_0 are (assumption on the data).
Not decided: equality with the published fits evaluated on the shipped tables, strict positivity of the metal rates up to
1e5 K, finiteness where table entries enter a denominator, and the frequency samplers (inverse-CDF table look-ups).
"""
import math

from .. import cfg as C
from . import c18_fit
from .. import tables as T
from ..astdb import AnalysisBroken, where

LEVEL = "other"


# ------------------------------------------------------------------------------ intervals
def _dn(x):
    return x if math.isinf(x) else math.nextafter(math.nextafter(x, -math.inf), -math.inf)


def _up(x):
    return x if math.isinf(x) else math.nextafter(math.nextafter(x, math.inf), math.inf)


class IV:
    __slots__ = ("lo", "hi")

    def __init__(self, lo, hi=None):
        self.lo = lo
        self.hi = lo if hi is None else hi

    def __repr__(self):
        return "[%.6g, %.6g]" % (self.lo, self.hi)


def iv_add(a, b):
    return IV(_dn(a.lo + b.lo), _up(a.hi + b.hi))


def iv_sub(a, b):
    return IV(_dn(a.lo - b.hi), _up(a.hi - b.lo))


def iv_mul(a, b):
    c = []
    for x in (a.lo, a.hi):
        for y in (b.lo, b.hi):
            c.append(0.0 if (x == 0 or y == 0) else x * y)
    return IV(_dn(min(c)), _up(max(c)))


def iv_div(a, b):
    if b.lo <= 0 <= b.hi:
        return IV(-math.inf, math.inf)
    return iv_mul(a, IV(_dn(1.0 / b.hi), _up(1.0 / b.lo)))


def iv_exp(a):
    def e(x):
        try:
            return math.exp(x)
        except OverflowError:
            return math.inf
    return IV(max(0.0, _dn(e(a.lo))), _up(e(a.hi)))


def iv_pow(a, c):
    """a^c for a > 0 and a constant exponent."""
    if a.lo <= 0:
        return IV(-math.inf, math.inf)

    def p(x):
        try:
            return math.pow(x, c)
        except OverflowError:
            return math.inf
    v = sorted((p(a.lo), p(a.hi)))
    return IV(max(0.0, _dn(v[0])), _up(v[1]))


class IntervalEval:
    def __init__(self, env):
        self.env = env

    def ev(self, e):
        e = C.strip_casts(e)
        k = e.get("k")
        if k in ("Float", "Int"):
            v = float(str(e.get("sp", e["v"])).rstrip("fFlL")) if k == "Float" else float(e["v"])
            return IV(v)
        if k == "Ref":
            v = self.env.get(("l", e.get("id")))
            if v is None:
                raise AnalysisBroken("interval evaluation: %s has no range (line %s)" % (e.get("n"), e.get("l")))
            return v
        if k == "Un" and e["op"] == "-":
            v = self.ev(e["x"])
            return IV(-v.hi, -v.lo)
        if k == "Bin" and e["op"] in ("+", "-", "*", "/"):
            a, b = self.ev(e["a"]), self.ev(e["b"])
            return {"+": iv_add, "-": iv_sub, "*": iv_mul, "/": iv_div}[e["op"]](a, b)
        if k == "Call":
            base = (e.get("fn") or e.get("n") or "").split("::")[-1]
            args = e["a"]
            if base == "exp" and len(args) == 1:
                return iv_exp(self.ev(args[0]))
            if base == "pow" and len(args) == 2:
                c = self.ev(args[1])
                if c.lo != c.hi:
                    raise AnalysisBroken("pow with a non-constant exponent (line %s)" % e.get("l"))
                return iv_pow(self.ev(args[0]), c.lo)
            if base == "sqrt" and len(args) == 1:
                return iv_pow(self.ev(args[0]), 0.5)
            if base in ("max", "fmax") and len(args) == 2:
                a, b = self.ev(args[0]), self.ev(args[1])
                return IV(max(a.lo, b.lo), max(a.hi, b.hi))
            if base in ("min", "fmin") and len(args) == 2:
                a, b = self.ev(args[0]), self.ev(args[1])
                return IV(min(a.lo, b.lo), min(a.hi, b.hi))
        raise AnalysisBroken("interval evaluation: expression not understood: %s (line %s)" % (C.pretty(e), e.get("l")))


# ------------------------------------------------------------------------------ sign x monotonicity
class SM:
    """(sign, monotonicity in the variable): sign in '+', '0+', '?'; mono in 'const', 'inc', 'dec', '?' (strict)."""
    __slots__ = ("s", "m", "c")

    def __init__(self, s, m, c=None):
        self.s, self.m, self.c = s, m, c

    def __repr__(self):
        return "(%s,%s)" % (self.s, self.m)


def sm_eval(e, env):
    e = C.strip_casts(e)
    k = e.get("k")
    if k in ("Float", "Int"):
        v = float(str(e.get("sp", e["v"])).rstrip("fFlL")) if k == "Float" else float(e["v"])
        return SM("+" if v > 0 else ("0+" if v == 0 else "-"), "const", v)
    if k == "Ref":
        v = env.get(("l", e.get("id")))
        if v is None:
            raise AnalysisBroken("sign analysis: %s unknown (line %s)" % (e.get("n"), e.get("l")))
        return v
    if k == "Un" and e.get("op") == "-":
        a = sm_eval(e["x"], env)
        if a.m == "const" and a.c is not None:
            return SM("+" if -a.c > 0 else ("0+" if a.c == 0 else "-"), "const", -a.c)
        return SM("?", {"inc": "dec", "dec": "inc", "const": "const"}.get(a.m, "?"))
    if k == "Bin" and e["op"] in ("+", "*", "/"):
        a, b = sm_eval(e["a"], env), sm_eval(e["b"], env)
        if e["op"] == "/":
            if b.s != "+":
                return SM("?", "?")
            b = SM("+", {"inc": "dec", "dec": "inc", "const": "const"}.get(b.m, "?"),
                   (1.0 / b.c) if b.c else None)
        pos = a.s == "+" and b.s == "+"
        nn = a.s in ("+", "0+") and b.s in ("+", "0+")
        if e["op"] == "+":
            s = "+" if (pos or (nn and "+" in (a.s, b.s))) else ("0+" if nn else "?")
            ms = {a.m, b.m} - {"const"}
            m = "const" if not ms else (ms.pop() if len(ms) == 1 and "?" not in ms else "?")
            return SM(s, m, (a.c + b.c) if (a.c is not None and b.c is not None and m == "const") else None)
        # product (or quotient turned into product)
        if not nn:
            return SM("?", "?")
        s = "+" if pos else "0+"
        ms = {a.m, b.m} - {"const"}
        m = "const" if not ms else (ms.pop() if len(ms) == 1 and "?" not in ms and pos else "?")
        return SM(s, m, (a.c * b.c) if (a.c is not None and b.c is not None and m == "const") else None)
    if k == "Call":
        base = (e.get("fn") or e.get("n") or "").split("::")[-1]
        args = e["a"]
        if base == "sqrt" and len(args) == 1:
            a = sm_eval(args[0], env)
            return SM(a.s if a.s in ("+", "0+") else "?", a.m if a.s in ("+", "0+") else "?")
        if base == "pow" and len(args) == 2:
            a, c = sm_eval(args[0], env), sm_eval(args[1], env)
            if a.s != "+" or c.m != "const" or c.c is None:
                return SM("?", "?")
            if c.c == 0:
                return SM("+", "const", 1.0)
            flip = {"inc": "dec", "dec": "inc", "const": "const"}
            return SM("+", a.m if c.c > 0 else flip.get(a.m, "?"))
        if base == "exp" and len(args) == 1:
            a = sm_eval(args[0], env)
            return SM("+", a.m)
        # a straight-line helper of the library (a fit formula extracted into a function): evaluated with the arguments'
        # abstract values bound to its parameters
        callee = SM_HELPERS.get(e.get("fn"))
        if callee is not None and len(callee["params"]) == len(args) and env.get("__depth__", 0) < 3:
            sub = {("l", p["id"]): sm_eval(a, env) for p, a in zip(callee["params"], args) if "id" in p}
            sub["__depth__"] = env.get("__depth__", 0) + 1
            for st in callee["body"]["s"]:
                if st.get("k") == "Decl":
                    for d in st["d"]:
                        if d.get("init") is not None:
                            sub[("l", d["id"])] = sm_eval(d["init"], sub)
                elif st.get("k") == "Return" and st.get("x") is not None:
                    return sm_eval(st["x"], sub)
                elif st.get("k") == "Null":
                    continue
                else:
                    return SM("?", "?")
    return SM("?", "?")


SM_HELPERS = {}


# ------------------------------------------------------------------------------ the rules
def arm_locals_and_return(arm):
    stmts = []
    for s in arm["stmts"]:
        if s.get("k") == "Block" and not s.get("mac"):
            stmts += s["s"]
        else:
            stmts.append(s)
    return stmts


def run(chk, prog):
    chk.explanation = (
        "Interval abstract interpretation of every charge-transfer formula over its clamped temperature range (finite, "
        "non-negative enclosure); exhaustiveness of the reaction tables against the ions the balance asks for; the final "
        "max(0, .) clamp on every recombination rate; a sign x monotonicity analysis of the hydrogen and helium recombination "
        "fits (strictly positive, strictly decreasing for T > 0); threshold guard and sign analysis of the photoionization fit. "
        "Everything that depends on the values of the shipped data tables, and the frequency samplers, is not decided.")
    chk.assumptions += ["table entries sigma_0, y_w^2, 1/y_a, 1/E_0 of the Verner data are non-negative (data, not decided)",
                        "libm exp / pow are accurate to 2 ulp (outward rounding of the enclosures)"]
    lib = prog.library()
    ions = T.enum_values(lib, "IonName")
    # ---- Q1 / Q2: charge transfer ---------------------------------------------------------------
    cu = prog.unit("ChargeTransferRates.cpp")
    chk.analysed(unit=cu.name)
    n1 = n2 = 0
    labels = {}
    for fname in ("get_charge_transfer_recombination_rate_H", "get_charge_transfer_ionization_rate_H",
                  "get_charge_transfer_recombination_rate_He"):
        fn = cu.func("ChargeTransferRates::" + fname)
        chk.analysed(function=fn["full"])
        tpar = [p for p in fn["params"] if p["t"].replace("const ", "").strip() == "double"]
        if len(tpar) != 1:
            raise AnalysisBroken("%s: temperature parameter not found" % fn["full"])
        sw, arms, default = T.switch_arms(fn)
        okarms = set()
        seen = set()
        for v, arm in sorted(arms.items()):
            if id(arm) in seen:
                if T.arm_aborts(arm) is False:
                    okarms.add(v)
                continue
            seen.add(id(arm))
            name = [k for k, x in ions.items() if x == v]
            name = name[0] if name else str(v)
            if T.arm_aborts(arm):
                continue
            okarms.add(v)
            env = {("l", tpar[0]["id"]): IV(0.0, math.inf)}
            ev = IntervalEval(env)
            ret = None
            for s in arm_locals_and_return(arm):
                k = s.get("k")
                if k == "Decl":
                    for d in s["d"]:
                        if d.get("init") is not None:
                            env[("l", d["id"])] = ev.ev(d["init"])
                elif k == "Bin" and s["op"] == "=" and C.strip_casts(s["a"]).get("k") == "Ref":
                    env[("l", C.strip_casts(s["a"])["id"])] = ev.ev(s["b"])
                elif k == "Return":
                    ret = ev.ev(s["x"])
                    rnode = s
                elif k in ("Null",):
                    pass
                else:
                    raise AnalysisBroken("%s: arm %s has a statement the interval evaluator does not understand (line %s)" %
                                         (fn["full"], name, s.get("l")))
            if ret is None:
                raise AnalysisBroken("%s: arm %s does not return" % (fn["full"], name))
            n1 += 1
            chk.require(ret.lo >= 0.0 and ret.hi < math.inf, "Q1",
                        "%s(%s) is finite and non-negative at every temperature (enclosure %s)" % (fname, name, ret),
                        where(rnode, fn), "over the clamped temperature range the formula is only known to lie in %s: it can "
                        "be negative or unbounded (a missing clamp, or a coefficient of the wrong sign)" % ret,
                        function=fn["full"], construct="%s %s" % (fname, name))
        labels[fname] = okarms
    chk.floor("Q1", n1, 30)
    # call sites
    used = {}
    for unit_name in ("IonizationStateCalculator.cpp", "TemperatureCalculator.cpp"):
        u = prog.unit(unit_name)
        chk.analysed(unit=unit_name)
        for d in u.decls:
            if d["kind"] != "function" or not d.get("body"):
                continue
            for s in C.walk_stmt(d["body"]):
                if s.get("k") in ("Block", "If", "For", "While", "Do", "ForRange", "Switch"):
                    continue
                exprs = [dd["init"] for dd in s["d"] if dd.get("init") is not None] if s.get("k") == "Decl" else [s]
                for ex in exprs:
                    for x in C.walk(ex):
                        if x.get("k") == "Call" and x.get("n") in labels and x["a"]:
                            v = C.const_int(x["a"][0])
                            used.setdefault(x["n"], []).append((v, x, d))
    for fname, sites in sorted(used.items()):
        for v, x, d in sites:
            n2 += 1
            name = [k for k, y in ions.items() if y == v]
            chk.require(v is not None and v in labels[fname], "Q2",
                        "%s is asked for %s (line %s), which has a rate arm" % (fname, name[0] if name else v, x.get("l")),
                        where(x, d), "the switch of %s has no non-aborting arm for this ion: the balance would abort" % fname,
                        function=d["full"], construct="%s %s" % (fname, name[0] if name else v))
    chk.floor("Q2", n2, 15)
    # ---- Q3 / Q4: recombination --------------------------------------------------------------------
    ru = prog.unit("VernerRecombinationRates.cpp")
    chk.analysed(unit=ru.name)
    rf = ru.func("VernerRecombinationRates::get_recombination_rate")
    chk.analysed(function=rf["full"])
    g = C.CFG(rf)
    rets = [nd for nd in g.nodes if nd.kind == "return" and nd.id in g.reachable()]
    n3 = 0
    for r in rets:
        e = C.strip_casts(r.ast.get("x"))
        okk = False
        if e is not None and e.get("k") == "Call" and (e.get("fn") or "").split("::")[-1] in ("max", "fmax") and len(e["a"]) == 2:
            okk = any(C.strip_casts(a).get("k") in ("Float", "Int") and float(C.strip_casts(a)["v"]) == 0.0 for a in e["a"])
        elif e is not None and e.get("k") in ("Float", "Int"):
            okk = float(e["v"]) >= 0
        n3 += 1
        chk.require(okk, "Q3", "get_recombination_rate returns max(0, rate) (line %s)" % r.ast.get("l"), where(r.ast, rf),
                    "a return statement hands out `%s` unclamped although several fits become negative outside their range" %
                    C.pretty(e), function=rf["full"], construct="final clamp")
    chk.floor("Q3", n3, 1)
    sw, arms, default = T.switch_arms(rf)
    tpar = [p for p in rf["params"] if p["t"].replace("const ", "").strip() == "double"][0]
    SM_HELPERS.clear()
    for d_ in ru.decls:
        if d_["kind"] == "function" and d_.get("body") is not None and d_ is not rf and d_["body"].get("k") == "Block" and \
                not any(x.get("k") in ("If", "For", "While", "Do", "Switch") for x in C.walk_stmt(d_["body"])):
            SM_HELPERS.setdefault(d_["full"].split("(")[0], d_)
    n4 = 0
    for ion_name in ("ION_H_n", "ION_He_n"):
        arm = arms.get(ions.get(ion_name))
        if arm is None:
            raise AnalysisBroken("get_recombination_rate: no arm for %s" % ion_name)
        env = {("l", tpar["id"]): SM("+", "inc")}
        rate = None
        for s in arm_locals_and_return(arm):
            if s.get("k") == "Decl":
                for d in s["d"]:
                    if d.get("init") is not None:
                        env[("l", d["id"])] = sm_eval(d["init"], env)
            elif s.get("k") == "Bin" and s["op"] == "=" and C.strip_casts(s["a"]).get("k") == "Ref":
                rate = sm_eval(s["b"], env)
                env[("l", C.strip_casts(s["a"])["id"])] = rate
                rnode = s
            elif s.get("k") == "Bin" and s["op"] in ("+=", "-=", "*=", "/=") and C.strip_casts(s["a"]).get("k") == "Ref":
                # a term added to (or a factor applied to) the fit afterwards is part of the returned rate
                rate = sm_eval({"k": "Bin", "op": s["op"][0], "a": s["a"], "b": s["b"], "l": s.get("l")}, env)
                env[("l", C.strip_casts(s["a"])["id"])] = rate
                rnode = s
            elif s.get("k") in ("If", "For", "While", "Do", "Switch"):
                raise AnalysisBroken("get_recombination_rate: the %s arm is not a straight-line formula (line %s)" %
                                     (ion_name, s.get("l")))
        if rate is None:
            raise AnalysisBroken("get_recombination_rate: arm %s assigns no rate" % ion_name)
        n4 += 1
        chk.require(rate.s == "+", "Q4", "the %s recombination fit is strictly positive for every T > 0" % ion_name,
                    where(rnode, rf), "sign analysis gives %s" % rate, function=rf["full"], construct="positive %s" % ion_name)
        n4 += 1
        chk.require(rate.m == "dec", "Q4", "the %s recombination fit decreases strictly with temperature" % ion_name,
                    where(rnode, rf), "monotonicity analysis gives %s (an exponent or a sign changed)" % rate,
                    function=rf["full"], construct="decreasing %s" % ion_name)
    # the unit conversion after the switch keeps sign and monotonicity: rate *= positive literal
    post = [s for s in rf["body"]["s"] if s.get("k") == "Bin" and s["op"] in ("*=", "/=")]
    n4 += 1
    chk.require(all(C.strip_casts(s["b"]).get("k") in ("Float", "Int") and float(C.strip_casts(s["b"])["v"]) > 0 for s in post),
                "Q4", "the unit conversion after the switch multiplies by a positive literal", where(rf),
                "conversion factors: %s" % [C.pretty(s["b"]) for s in post], function=rf["full"], construct="unit conversion")
    chk.floor("Q4", n4, 5)
    # ---- Q5: cross sections ------------------------------------------------------------------------
    xu = prog.unit("VernerCrossSections.cpp")
    chk.analysed(unit=xu.name)
    xf = xu.func("VernerCrossSections::get_cross_section_verner")
    chk.analysed(function=xf["full"])
    epar = [p for p in xf["params"] if p["t"].replace("const ", "").strip() == "double"]
    if len(epar) != 1:
        raise AnalysisBroken("get_cross_section_verner: energy parameter not found")
    ekey = ("local", epar[0]["id"], epar[0]["n"])
    top = [s for s in xf["body"]["s"] if not (s.get("k") == "Block" and s.get("mac"))]
    first_if = next((s for s in top if s.get("k") == "If"), None)
    before = top[:top.index(first_if)] if first_if is not None else []
    okg = first_if is not None and all(s.get("k") == "Null" or (s.get("k") == "Decl" and all(
        not any(C.ref_key(x) == ekey for x in C.walk(d["init"])) for d in s["d"] if d.get("init") is not None)) for s in before)
    if okg:
        c = C.strip_casts(first_if["c"])
        okg = c.get("k") == "Bin" and c["op"] == "<" and C.ref_key(c["a"]) == ekey and "E_th" in C.pretty(c["b"])
        rets0 = [s for s in C.walk_stmt(first_if["th"]) if s.get("k") == "Return"]
        okg = okg and len(rets0) == 1 and C.strip_casts(rets0[0]["x"]).get("k") in ("Float", "Int") and \
            float(C.strip_casts(rets0[0]["x"])["v"]) == 0.0
    n5 = 1
    chk.require(okg, "Q5", "`energy < threshold -> return 0` is the first thing get_cross_section_verner decides",
                where(first_if or xf, xf), "the threshold test is missing, not first, or does not return 0", function=xf["full"],
                construct="threshold guard")
    # every other return: 0 or a product of non-negative factors (table entries assumed non-negative)
    def sign_of_returns(stmts, env):
        nonlocal n5
        for s in stmts:
            k = s.get("k")
            if k == "Block" and not s.get("mac"):
                sign_of_returns(s["s"], env)
            elif k == "Decl":
                for d in s["d"]:
                    if d.get("init") is None or d.get("t", "").replace("const ", "").strip() != "double":
                        continue
                    init = C.strip_casts(d["init"])
                    if init.get("k") in ("Idx",) or (init.get("k") == "Call" and init.get("op") == "[]"):
                        env[("l", d["id"])] = SM("0+", "const")       # table entry (assumed non-negative)
                    else:
                        env[("l", d["id"])] = sq_eval(init, env)
            elif k == "Bin" and s["op"] == "=" and C.strip_casts(s["a"]).get("k") == "Ref" and \
                    C.strip_casts(s["a"]).get("dk") in ("Var", "ParmVar"):
                rhs = C.strip_casts(s["b"])
                if rhs.get("k") in ("Idx",) or (rhs.get("k") == "Call" and rhs.get("op") == "[]"):
                    env[("l", C.strip_casts(s["a"])["id"])] = SM("0+", "const")
                else:
                    env[("l", C.strip_casts(s["a"])["id"])] = sq_eval(rhs, env)
            elif k == "If":
                e1, e2 = dict(env), dict(env)
                sign_of_returns([s["th"]], e1)
                if s.get("el") is not None:
                    sign_of_returns([s["el"]], e2)
                for key in set(e1) | set(e2):
                    a, b = e1.get(key), e2.get(key)
                    if a is not None and b is not None and a.s == b.s:
                        env[key] = a if a.m == b.m else SM(a.s, "?")
                    elif a is not None and b is not None and {a.s, b.s} <= {"+", "0+", "0"}:
                        env[key] = SM("0+", "?")
                    else:
                        env[key] = SM("?", "?")
            elif k == "Return" and s.get("x") is not None:
                e = C.strip_casts(s["x"])
                v = sq_eval(e, env)
                n5 += 1
                chk.require(v.s in ("+", "0+"), "Q5", "the cross section returned at line %s is non-negative" % s.get("l"),
                            where(s, xf), "sign analysis of `%s` gives %s" % (C.pretty(e)[:100], v), function=xf["full"],
                            construct="non-negative return")

    q5_helpers = {d["full"].split("(")[0]: d for d in xu.decls if d["kind"] == "function" and d.get("body") is not None and
                  not d.get("cls")}
    q5_depth = [0]

    def collect_return_signs(stmts, env, out):
        """Signs of the values a (helper) function can return; locals as in sign_of_returns."""
        for s_ in stmts:
            k_ = s_.get("k")
            if k_ == "Block" and not s_.get("mac"):
                collect_return_signs(s_["s"], env, out)
            elif k_ == "Decl":
                for d_ in s_["d"]:
                    if d_.get("init") is None or d_.get("t", "").replace("const ", "").strip() != "double":
                        continue
                    env[("l", d_["id"])] = sq_eval(d_["init"], env)
            elif k_ == "Bin" and s_["op"] == "=" and C.strip_casts(s_["a"]).get("k") == "Ref":
                env[("l", C.strip_casts(s_["a"])["id"])] = sq_eval(s_["b"], env)
            elif k_ == "If":
                e1_, e2_ = dict(env), dict(env)
                collect_return_signs([s_["th"]], e1_, out)
                if s_.get("el") is not None:
                    collect_return_signs([s_["el"]], e2_, out)
                for key_ in set(e1_) | set(e2_):
                    a_, b_ = e1_.get(key_), e2_.get(key_)
                    if a_ is not None and b_ is not None and a_.s == b_.s:
                        env[key_] = a_
                    elif a_ is not None and b_ is not None and {a_.s, b_.s} <= {"+", "0+", "0"}:
                        env[key_] = SM("0+", "?")
                    else:
                        env[key_] = SM("?", "?")
            elif k_ == "Return" and s_.get("x") is not None:
                out.append(sq_eval(s_["x"], env))
            elif k_ in ("For", "While", "Do", "Switch"):
                raise AnalysisBroken("get_cross_section_verner: a helper with a loop (line %s)" % s_.get("l"))

    def sq_eval(e, env):
        """sm_eval plus: x*x and (a*a + nonneg) are non-negative whatever the sign of x."""
        e = C.strip_casts(e)
        if e.get("k") == "Bin" and e["op"] == "*" and C.pretty(e["a"]) == C.pretty(e["b"]):
            return SM("0+", "?")
        if e.get("k") == "Bin" and e["op"] in ("+", "*", "/"):
            a, b = sq_eval(e["a"], env), sq_eval(e["b"], env)
            tmp = {("l", -1): a, ("l", -2): b}
            return sm_eval({"k": "Bin", "op": e["op"], "a": {"k": "Ref", "id": -1}, "b": {"k": "Ref", "id": -2}}, tmp)
        if e.get("k") == "Bin" and e["op"] == "-":
            return SM("?", "?")
        if e.get("k") == "Call" and not e.get("obj") and (e.get("fn") or "") in q5_helpers and q5_depth[0] < 3:
            callee = q5_helpers[e["fn"]]
            if len(callee["params"]) == len(e["a"]):
                env2 = {}
                for p_, a_ in zip(callee["params"], e["a"]):
                    if (p_.get("t") or "").replace("const ", "").strip() == "double":
                        env2[("l", p_["id"])] = sq_eval(a_, env)
                signs = []
                q5_depth[0] += 1
                collect_return_signs(callee["body"]["s"], env2, signs)
                q5_depth[0] -= 1
                if not signs:
                    raise AnalysisBroken("get_cross_section_verner: helper %s returns nothing" % callee["name"])
                if all(x.s == signs[0].s for x in signs):
                    return SM(signs[0].s, "?")
                return SM("0+", "?") if all(x.s in ("+", "0+", "0") for x in signs) else SM("?", "?")
        if e.get("k") == "Call":
            base = (e.get("fn") or e.get("n") or "").split("::")[-1]
            if base == "pow" and len(e["a"]) == 2:
                a = sq_eval(e["a"][0], env)
                # y^c with y >= 0 is >= 0 (or +inf) for any real c
                return SM("0+", "?") if a.s in ("+", "0+") else SM("?", "?")
            if base == "sqrt" and len(e["a"]) == 1:
                a = sq_eval(e["a"][0], env)
                return SM("0+", "?") if a.s in ("+", "0+") else SM("?", "?")
        if e.get("k") == "Ref" and ("l", e.get("id")) in env:
            return env[("l", e["id"])]
        if e.get("k") in ("Float", "Int"):
            return sm_eval(e, env)
        if e.get("k") == "Un" and e.get("op") == "-":
            a = sq_eval(e["x"], env)
            return SM("-" if a.s == "+" else "?", "?")
        if e.get("k") == "Cond":
            a, b = sq_eval(e["a"], env), sq_eval(e["b"], env)
            if a.s == b.s:
                return SM(a.s, "?")
            return SM("0+", "?") if {a.s, b.s} <= {"+", "0+", "0"} else SM("?", "?")
        if e.get("k") == "Idx" or (e.get("k") == "Call" and e.get("op") == "[]"):
            return SM("0+", "const")          # table entry (assumed non-negative)
        raise AnalysisBroken("get_cross_section_verner: the sign analysis does not understand `%s` (line %s)" %
                             (C.pretty(e)[:80], e.get("l")))
    env0 = {("l", epar[0]["id"]): SM("0+", "inc")}
    sign_of_returns(top[top.index(first_if) + 1:] if first_if is not None else top, env0)
    chk.floor("Q5", n5, 5)
    # ---- Q6: the evaluated fit is the published one ---------------------------------------------------
    n6 = c18_fit.rule_Q6(chk, prog)
    chk.floor("Q6", n6, 3)
