"""C17 - orientation and in-sphere tests always return the exact sign.

Decided for ALL inputs with coordinates in [1,2) (the documented precondition), as algebra on the expression trees of
ExactGeometricTests plus one counting argument of rounding-error analysis:
 E1 the integer polynomial evaluated by orient3d_exact / insphere_exact on the 52-bit mantissas IS the orientation /
    in-sphere determinant of the points (identity with the reference determinant written in the checker; its sign
    convention is the one documented in the code), the three-way sign test returns exactly its sign;
 E2 the multi-precision integer type is wide enough: an interval evaluation of the expression DAG with every mantissa in
    [0, 2^52-1] bounds every intermediate value below the magnitude capacity of the declared type;
 E3 the determinant changes sign under every transposition of two points (so: odd permutations negate, even ones keep);
 E4 the floating-point filter evaluates the same polynomial (exact value of the float expression tree = 2^(-52 deg) x the
    integer polynomial), its leaves (coordinate differences) are computed exactly for inputs in [1,2), nothing can
    underflow, and its error bound is c x M where M is the magnitude form of the very expression tree it guards;
 E5 filter soundness: with k roundings on the deepest path of the result and kE roundings in the error bound, the standard
    model fl(x op y) = (x op y)(1+d), |d| <= 2^-53 gives |fl(result) - det| <= ((1+u)^k - 1) M and
    fl(errbound) >= c M (1-u)^kE (k counts roundings along the deepest path, factors of a product add their counts); the
    coded c satisfies c (1-u)^kE >= (1+u)^k - 1, hence a non-zero answer of the
    filter has the sign of the exact determinant; otherwise the exact test is called with the same points in the same order.
 E6 at every call site outside the class, every point passed to a predicate is a local initialised from the position
    lookup get_position(vertex, box, positions) (no raw physical coordinate reaches a predicate).
Not decided: that the looked-up coordinates are in [1,2) (the rescaling of the generators computes runtime values).
"""
from fractions import Fraction

import sympy as sp

from .. import cfg as C
from ..absint import G, g_add
from ..astdb import AnalysisBroken, where

LEVEL = "proof"
U = Fraction(1, 2 ** 53)


class FNode:
    """A floating-point expression: exact value v, magnitude form m (same tree with every leaf replaced by its absolute
    value and every subtraction by an addition), rounding depth k, grid exponent bound e (value is a multiple of 2^e)."""
    __slots__ = ("v", "m", "k", "e", "deg")

    def __init__(self, v, m, k, e, deg):
        self.v, self.m, self.k, self.e, self.deg = v, m, k, e, deg


def leafname(pn, comp):
    return "%s%s" % (pn, "xyz"[comp])


class FloatEval:
    """Evaluates the adaptive (filter) functions to FNodes."""

    def __init__(self, fn, unit):
        self.fn = fn
        self.unit = unit
        self.env = {}
        self.points = []
        for p in fn["params"]:
            if "CoordinateVector" not in p["t"]:
                raise AnalysisBroken("%s: unexpected parameter %s" % (fn["full"], p["n"]))
            nm = p["n"][0]
            self.points.append(nm)
            self.env[("l", p["id"])] = ("pt", nm)
        self.leaves = {}
        self.absof = {}

    def leaf(self, p, q, comp):
        """difference of two input coordinates: exact for inputs in [1,2) (checked on the dyadic grid)."""
        one_two = G(2 ** 52, 2 ** 53 - 1, -52)
        d = g_add(one_two, one_two, -1)
        if not d.exact_in_double():
            raise AnalysisBroken("difference of two doubles in [1,2) not exact?")
        name = "%s%s%s" % (p, q, "xyz"[comp])
        s = sp.Symbol(name, real=True)
        a = sp.Symbol("|" + name + "|", nonnegative=True)
        self.leaves[s] = (p, q, comp)
        self.absof[s] = a
        return FNode(s, a, 0, -52, 1)

    def vec(self, e):
        e = C.strip_casts(e)
        while e.get("k") == "Ctor" and len(e.get("a", [])) == 1 and "CoordinateVector" in (e.get("cls") or ""):
            e = C.strip_casts(e["a"][0])
        if e.get("k") == "Ref":
            v = self.env.get(("l", e["id"]))
            if v is None:
                raise AnalysisBroken("unknown vector %s (line %s)" % (e.get("n"), e.get("l")))
            return v
        if e.get("k") == "Call" and e.get("op") == "-" and len(e["a"]) == 2:
            a, b = self.vec(e["a"][0]), self.vec(e["a"][1])
            if a[0] == "pt" and b[0] == "pt":
                return ("vec", tuple(self.leaf(a[1], b[1], i) for i in range(3)))
        raise AnalysisBroken("vector expression not understood: %s (line %s)" % (C.pretty(e), e.get("l")))

    def scalar(self, e):
        e = C.strip_casts(e)
        k = e.get("k")
        if k == "Ref":
            v = self.env.get(("l", e["id"]))
            if not isinstance(v, FNode):
                raise AnalysisBroken("scalar %s unknown (line %s)" % (e.get("n"), e.get("l")))
            return v
        if k == "Float":
            fr = Fraction(float(str(e.get("sp", e["v"])).rstrip("fFlL")))
            return FNode(sp.Rational(fr.numerator, fr.denominator), sp.Rational(abs(fr.numerator), fr.denominator), 0, 0, 0)
        if k == "Un" and e["op"] == "-":
            x = self.scalar(e["x"])
            return FNode(-x.v, x.m, x.k, x.e, x.deg)
        if k == "Call" and e.get("obj") is not None and not e["a"] and e.get("n") in ("x", "y", "z"):
            v = self.vec(e["obj"])
            if v[0] != "vec":
                raise AnalysisBroken("component of an input point used directly (line %s): not a difference" % e.get("l"))
            return v[1]["xyz".index(e["n"])]
        if k == "Call" and e.get("obj") is not None and not e["a"] and e.get("n") == "norm2":
            v = self.vec(e["obj"])
            # evaluate the body of CoordinateVector::norm2 with the members bound to this vector's components
            pats = [d for d in self.unit.functions.get("CoordinateVector::norm2", []) if d.get("body")]
            rets = [s for d in pats[:1] for s in C.walk_stmt(d["body"]) if s.get("k") == "Return"]
            if len(rets) != 1:
                raise AnalysisBroken("CoordinateVector::norm2: body with a single return not found")
            old = getattr(self, "members", None)
            self.members = {"_x": v[1][0], "_y": v[1][1], "_z": v[1][2]}
            try:
                return self.scalar(rets[0]["x"])
            finally:
                self.members = old
        if k == "Mem" and getattr(self, "members", None) and e.get("n") in self.members:
            return self.members[e["n"]]
        if k == "Call" and (e.get("fn") or "").split("::")[-1] in ("abs", "fabs") and len(e["a"]) == 1:
            x = self.scalar(e["a"][0])
            # |fl(t)|: same rounding depth, value and magnitude coincide (= magnitude form of t)
            af = self.absform(x.v)
            if af is None or sp.simplify(x.m - af) != 0:
                # |t| of an expression with cancellation: all that is known is 0 <= |t| <= M(t); as a term of an error bound
                # it guarantees nothing.  An opaque non-negative symbol stands for it, so that the bound cannot be shown to
                # be a multiple of the magnitude form.
                if not hasattr(self, "opaque_abs"):
                    self.opaque_abs = {}
                sym = sp.Symbol("abs#%d" % (len(self.opaque_abs) + 1), nonnegative=True)
                self.opaque_abs[sym] = (C.pretty(e["a"][0])[:80], e.get("l"))
                return FNode(sym, x.m, x.k, x.e, x.deg)
            return FNode(x.m, x.m, x.k, x.e, x.deg)
        if k == "Bin" and e["op"] == "-":
            # a difference of the same component of two input points is a leaf (exact for inputs in [1,2))
            pa, pb = self.point_component(e["a"]), self.point_component(e["b"])
            if pa is not None and pb is not None and pa[1] == pb[1]:
                return self.leaf(pa[0], pb[0], pa[1])
        if k == "Bin" and e["op"] in ("+", "-", "*"):
            a, b = self.scalar(e["a"]), self.scalar(e["b"])
            if e["op"] == "*":
                return self.mul(a, b)
            return self.add(a, b, -1 if e["op"] == "-" else 1)
        raise AnalysisBroken("scalar expression not understood: %s (line %s)" % (C.pretty(e), e.get("l")))

    def point_component(self, e):
        """(point name, component) when e is p.x() / p[i] of an input point."""
        e = C.strip_casts(e)
        if e.get("k") == "Call" and e.get("obj") is not None and not e["a"] and e.get("n") in ("x", "y", "z"):
            o = C.strip_casts(e["obj"])
            if o.get("k") == "Ref" and self.env.get(("l", o.get("id")), (None,))[0] == "pt":
                return self.env[("l", o["id"])][1], "xyz".index(e["n"])
        if e.get("k") == "Call" and e.get("op") == "[]" and e.get("obj") is not None and e["a"] and \
                C.const_int(e["a"][0]) in (0, 1, 2):
            o = C.strip_casts(e["obj"])
            if o.get("k") == "Ref" and self.env.get(("l", o.get("id")), (None,))[0] == "pt":
                return self.env[("l", o["id"])][1], C.const_int(e["a"][0])
        return None

    def absform(self, v):
        """|monomial| as product of the leaves' absolute-value symbols (only for products of leaves / constants)."""
        v = sp.expand(v)
        if v.is_Add:
            return None
        out = sp.Integer(1)
        for f, p in v.as_powers_dict().items():
            if f in self.absof:
                out *= self.absof[f] ** p
            elif f.is_number:
                out *= abs(f) ** p
            elif f in self.absof.values():
                out *= f ** p
            else:
                return None
        return out

    def mul(self, a, b):
        # relative errors of the factors multiply: (1+u)^ka (1+u)^kb (1+u)
        return FNode(a.v * b.v, a.m * b.m, a.k + b.k + 1, a.e + b.e, a.deg + b.deg)

    def add(self, a, b, sign=1):
        return FNode(a.v + sign * b.v, a.m + b.m, max(a.k, b.k) + 1, min(a.e, b.e), max(a.deg, b.deg))

    def run(self):
        """Returns (result node, errbound node, structure ok?, exact call)."""
        body = self.fn["body"]["s"]
        tail = []
        for s in body:
            if s.get("k") == "Decl" and all((d.get("t") or "").replace("const ", "").strip() == "bool" for d in s["d"]):
                tail.append(s)          # decision flags: part of the control skeleton
            elif s.get("k") == "Decl":
                if tail:
                    raise AnalysisBroken("%s: arithmetic after the decision started (line %s)" % (self.fn["full"], s.get("l")))
                for d in s["d"]:
                    if d.get("init") is None:
                        raise AnalysisBroken("uninitialised local %s" % d["n"])
                    if "CoordinateVector" in (d.get("t") or ""):
                        self.env[("l", d["id"])] = self.vec(d["init"])
                    else:
                        self.env[("l", d["id"])] = self.scalar(d["init"])
            elif s.get("k") in ("If", "Return"):
                tail.append(s)
            elif s.get("k") == "Block" and s.get("mac"):
                continue
            else:
                raise AnalysisBroken("%s: unexpected statement at line %s" % (self.fn["full"], s.get("l")))
        return tail


def int_expr(fn):
    """Forward substitution of the exact (integer) function: returns (sympy polynomial in mantissa symbols, interval
    bound evaluation closure, declared magnitude bits, tail If)."""
    env = {}
    ienv = {}
    pts = {}
    for p in fn["params"]:
        pts[("l", p["id"])] = p["n"]
    width = None
    maxabs = [0]

    def unctor(e):
        e = C.strip_casts(e)
        while e.get("k") == "Ctor" and e.get("a") and all(
                x.get("k") in ("DefArg", "Null") or C.strip_casts(x).get("k") == "Null" for x in e["a"][1:]):
            e = C.strip_casts(e["a"][0])
        return e

    def conv(e):
        e = unctor(e)
        k = e.get("k")
        if k == "Ref":
            key = ("l", e["id"])
            if key not in env:
                raise AnalysisBroken("%s: unknown value %s (line %s)" % (fn["full"], e.get("n"), e.get("l")))
            return env[key], ienv[key]
        if k == "Call" and e.get("n") == "get_mantissa" and len(e["a"]) == 1:
            a = C.strip_casts(e["a"][0])
            if a.get("k") == "Call" and a.get("n") in ("x", "y", "z") and a.get("obj") is not None:
                pk = ("l", C.strip_casts(a["obj"]).get("id"))
                if pk in pts:
                    s = sp.Symbol("%s%s" % (pts[pk], a["n"]), integer=True)
                    return s, (0, 2 ** 52 - 1)
            raise AnalysisBroken("%s: get_mantissa of %s" % (fn["full"], C.pretty(a)))
        if k == "Int":
            v = int(e["v"])
            return sp.Integer(v), (v, v)
        op = None
        args = None
        if k == "Bin" and e["op"] in ("+", "-", "*"):
            op, args = e["op"], [e["a"], e["b"]]
        elif k == "Call" and e.get("op") in ("+", "-", "*"):
            op = e["op"]
            args = ([e["obj"]] if e.get("obj") is not None else []) + list(e["a"])
        if op and len(args) == 2:
            (a, ia), (b, ib) = conv(args[0]), conv(args[1])
            if op == "+":
                r, ir = a + b, (ia[0] + ib[0], ia[1] + ib[1])
            elif op == "-":
                r, ir = a - b, (ia[0] - ib[1], ia[1] - ib[0])
            else:
                c = [x * y for x in ia for y in ib]
                r, ir = a * b, (min(c), max(c))
            maxabs[0] = max(maxabs[0], abs(ir[0]), abs(ir[1]))
            return r, ir
        if k == "Un" and e.get("op") == "-":
            a, ia = conv(e["x"])
            return -a, (-ia[1], -ia[0])
        raise AnalysisBroken("%s: expression not understood: %s (line %s)" % (fn["full"], C.pretty(e), e.get("l")))

    tail = None
    result_key = None
    import re
    for s in fn["body"]["s"]:
        if s.get("k") == "Decl":
            for d in s["d"]:
                t = d.get("t") or ""
                m = re.search(r"cpp_int_backend<(\d+), (\d+), boost::multiprecision::signed_magnitude", t)
                if not m:
                    raise AnalysisBroken("%s: local %s is not a fixed-width signed-magnitude integer (%s)" %
                                         (fn["full"], d["n"], t[:60]))
                w = int(m.group(2))
                width = w if width is None else min(width, w)
                env[("l", d["id"])], ienv[("l", d["id"])] = conv(d["init"])
                result_key = ("l", d["id"])
        elif s.get("k") in ("If", "Return"):
            tail = (tail or []) + [s]
        elif s.get("k") == "Block" and s.get("mac"):
            continue
        else:
            raise AnalysisBroken("%s: unexpected statement at line %s" % (fn["full"], s.get("l")))
    return env, ienv, width, maxabs[0], tail, result_key


def sign_chain(tail, key_of):
    """For `if (r > 0) return 1; else if (r < 0) return -1; else return 0;` returns {'>': 1, '<': -1, '=': 0} etc."""
    out = {}
    s = tail
    while s is not None and s.get("k") == "If":
        c = C.strip_casts(s["c"])
        cmp_ = None
        if c.get("k") == "Bin":
            cmp_ = (c["op"], c["a"], c["b"])
        elif c.get("k") == "Call" and c.get("op") in ("<", ">"):
            args = ([c["obj"]] if c.get("obj") is not None else []) + list(c["a"])
            cmp_ = (c["op"], args[0], args[1])
        if cmp_ is None:
            return None
        rets = [x for x in C.walk_stmt(s["th"]) if x.get("k") == "Return"]
        if len(rets) != 1:
            return None
        out[(cmp_[0], key_of(cmp_[1]), key_of(cmp_[2]))] = rets[0]["x"]
        s = s.get("el")
        if s is not None and s.get("k") == "Block" and len(s["s"]) == 1:
            s = s["s"][0]
    if s is not None:
        rets = [x for x in C.walk_stmt(s) if x.get("k") == "Return"] if s.get("k") != "Return" else [s]
        if len(rets) != 1:
            return None
        out["else"] = rets[0]["x"]
    return out


class _Undecided(Exception):
    pass


def decide(stmts, truth_of, unit=None, cls=None, depth=0):
    """Evaluates the control skeleton `stmts` for one abstract case. truth_of(comparison ast) -> True / False / None.
    Returns the returned expression ast (a constant, or a call) of the path taken."""
    env = {}

    def tv(e):
        e = C.strip_casts(e)
        k = e.get("k")
        if k == "Bool":
            return bool(e["v"])
        if k == "Ref" and e.get("id") in env:
            return env[e["id"]]
        if k == "Un" and e["op"] == "!":
            return not tv(e["x"])
        if k == "Bin" and e["op"] in ("||", "&&"):
            a = tv(e["a"])
            if e["op"] == "||":
                return True if a else tv(e["b"])
            return False if not a else tv(e["b"])
        if k in ("Bin", "Call"):
            t = truth_of(e)
            if t is not None:
                return t
        raise _Undecided(C.pretty(e))

    def val(e):
        e0 = C.strip_casts(e)
        while e0.get("k") == "Ctor" and len(e0.get("a", [])) >= 1:
            e0 = C.strip_casts(e0["a"][0])
        if e0.get("k") == "Cond":
            return val(e0["a"] if tv(e0["c"]) else e0["b"])
        if e0.get("k") == "Call" and unit is not None and cls and (e0.get("fn") or "").startswith(cls + "::") and depth < 2:
            cands = [d for d in unit.functions.get(e0["fn"], []) if d.get("body")]
            body = cands[0] if cands else None
            if body is not None and len(body["params"]) == 1 and len(e0["a"]) == 1 and \
                    not any(x.get("k") in ("For", "While", "Do") for x in C.walk_stmt(body["body"])) and \
                    len([x for x in C.walk_stmt(body["body"]) if x.get("k") == "Decl"]) == 0:
                # a one-parameter pure helper (e.g. a sign function): evaluate it with the parameter bound to the argument
                pid = body["params"][0]["id"]
                arg = e0["a"][0]

                def truth2(c):
                    c2 = _subst_param(c, pid, arg)
                    return truth_of(c2)
                return decide(body["body"]["s"], truth2, unit, cls, depth + 1)
        return e0

    def run(sts):
        for st in sts:
            k = st.get("k")
            if k == "Block":
                if st.get("mac"):
                    continue
                r = run(st["s"])
                if r is not None:
                    return r
            elif k == "Decl":
                for d in st["d"]:
                    if d.get("init") is not None and (d.get("t") or "").replace("const ", "").strip() == "bool":
                        env[d["id"]] = tv(d["init"])
            elif k == "If":
                r = run([st["th"]]) if tv(st["c"]) else (run([st["el"]]) if st.get("el") is not None else None)
                if r is not None:
                    return r
            elif k == "Return":
                return val(st["x"])
        return None
    return run(stmts)


def _subst_param(e, pid, arg):
    if isinstance(e, dict):
        if e.get("k") == "Ref" and e.get("id") == pid:
            return arg
        return {k: _subst_param(v, pid, arg) for k, v in e.items()}
    if isinstance(e, list):
        return [_subst_param(v, pid, arg) for v in e]
    return e


def reference_orient(P):
    a, b, c, d = P
    M = sp.Matrix([[a[0] - d[0], a[1] - d[1], a[2] - d[2]],
                   [b[0] - d[0], b[1] - d[1], b[2] - d[2]],
                   [c[0] - d[0], c[1] - d[1], c[2] - d[2]]])
    return M.det(method="berkowitz")


def reference_insphere(P):
    a, b, c, d, e = P
    rows = []
    for p in (a, b, c, d):
        dx, dy, dz = p[0] - e[0], p[1] - e[1], p[2] - e[2]
        rows.append([dx, dy, dz, dx * dx + dy * dy + dz * dz])
    return sp.Matrix(rows).det(method="berkowitz")


def run(chk, prog):
    chk.explanation = (
        "The integer polynomials of the exact predicates are extracted and proved identical to the orientation / in-sphere "
        "determinants; an interval evaluation with all mantissas in [0, 2^52-1] shows the declared multi-precision widths "
        "suffice; transposition antisymmetry is a polynomial identity; the floating-point filters evaluate the same "
        "polynomial on exactly computed differences, and their error bound is c times the magnitude form of the guarded "
        "expression with c large enough for the number of roundings (standard (1+d) model), so a non-zero filter answer "
        "has the exact sign. All inputs in [1,2) at once; no evaluation on concrete points.")
    chk.assumptions += ["coordinates passed to the predicates are in [1,2) (rescaled generators; not decided)",
                        "IEEE-754 binary64 with round-to-nearest: fl(x op y) = (x op y)(1+d), |d| <= 2^-53, no underflow (checked)",
                        "boost::multiprecision fixed-width signed-magnitude integers compute exactly below their capacity"]
    u = prog.umbrella
    chk.analysed(unit="umbrella")
    cls = "ExactGeometricTests"
    n = 0
    for exact_name, adapt_name, npts, ref, deg in (("orient3d_exact", "orient3d_adaptive", 4, reference_orient, 3),
                                                   ("insphere_exact", "insphere_adaptive", 5, reference_insphere, 5)):
        fe = u.func(cls + "::" + exact_name)
        fa = u.func(cls + "::" + adapt_name)
        chk.analysed(function=fe["full"])
        chk.analysed(function=fa["full"])
        env, ienv, width, maxabs, tail, rkey = int_expr(fe)
        names = [p["n"] for p in fe["params"]]
        if len(names) != npts:
            raise AnalysisBroken("%s: expected %d points" % (fe["full"], npts))
        P = [[sp.Symbol("%s%s" % (nm, c), integer=True) for c in "xyz"] for nm in names]
        poly = sp.expand(env[rkey])
        refp = sp.expand(ref(P))
        # ---- E1 ------------------------------------------------------------------------
        n += 1
        same = sp.expand(poly - refp) == 0
        neg = sp.expand(poly + refp) == 0
        chk.require(same or neg, "E1", "%s evaluates the %s determinant of its points" %
                    (exact_name, "orientation" if npts == 4 else "in-sphere"), where(fe),
                    "the coded polynomial differs from +-det: difference has %d terms" %
                    len(sp.Add.make_args(sp.expand(poly - refp))), function=fe["full"], construct="determinant identity")
        # documented sign convention: orient3d((0,0,0),(0,0,1),(0,1,0),(1,0,0)) = +1
        if npts == 4:
            sub = dict(zip([s for p in P for s in p], [0, 0, 0, 0, 0, 1, 0, 1, 0, 1, 0, 0]))
            val = refp.subs(sub)
            n += 1
            chk.require((same and val > 0) or (neg and val < 0), "E1",
                        "the sign convention is the documented one (tetrahedron (0,0,0),(0,0,1),(0,1,0),(1,0,0) is positive)",
                        where(fe), "reference determinant of the documented example is %s and the code computes %s det" %
                        (val, "+" if same else "-"), function=fe["full"], construct="sign convention")
        # three-way sign: the control skeleton after the polynomial is evaluated for result > 0, < 0 and == 0
        def is_result(e):
            e = C.strip_casts(e)
            while e.get("k") == "Ctor" and e.get("a") and all(
                    x.get("k") in ("DefArg", "Null") or C.strip_casts(x).get("k") == "Null" for x in e["a"][1:]):
                e = C.strip_casts(e["a"][0])
            return e.get("k") == "Ref" and ("l", e.get("id")) == rkey

        def truth_for(case):
            def t(c):
                c = C.strip_casts(c)
                op, a0, b0 = None, None, None
                if c.get("k") == "Bin":
                    op, a0, b0 = c["op"], c["a"], c["b"]
                elif c.get("k") == "Call" and c.get("op") in ("<", ">", "<=", ">=", "==", "!="):
                    args = ([c["obj"]] if c.get("obj") is not None else []) + list(c["a"])
                    op, a0, b0 = c["op"], args[0], args[1]
                if op is None:
                    return None
                if is_result(a0) and C.const_int(b0) == 0:
                    pass
                elif is_result(b0) and C.const_int(a0) == 0:
                    op = {"<": ">", ">": "<", "<=": ">=", ">=": "<=", "==": "==", "!=": "!="}[op]
                else:
                    return None
                v = {"pos": 1, "neg": -1, "zero": 0}[case]
                return {"<": v < 0, ">": v > 0, "<=": v <= 0, ">=": v >= 0, "==": v == 0, "!=": v != 0}[op]
            return t
        oks = False
        try:
            got = {}
            for case in ("pos", "neg", "zero"):
                r = decide(tail or [], truth_for(case), u, cls)
                got[case] = C.const_int(r) if r is not None else None
            oks = got == {"pos": 1, "neg": -1, "zero": 0}
        except _Undecided:
            oks = False
        tail_loc = (tail or [fe])[0]
        n += 1
        chk.require(oks, "E1", "%s returns +1 / -1 / 0 for a positive / negative / zero determinant" % exact_name,
                    where(tail_loc, fe), "the final sign test is not the three-way sign of the result",
                    function=fe["full"], construct="three-way sign")
        # ---- E2 ------------------------------------------------------------------------
        n += 1
        bits = maxabs.bit_length()
        chk.require(width is not None and bits <= width, "E2",
                    "every intermediate of %s fits the declared %s-bit magnitude (needs at most %d bits)" %
                    (exact_name, width, bits), where(fe), "an intermediate value can need %d bits, the integer type holds %s: the "
                    "unchecked type silently wraps" % (bits, width), function=fe["full"], construct="integer width")
        # ---- E3 ------------------------------------------------------------------------
        flat = [s for p in P for s in p]
        for i in range(npts):
            for j in range(i + 1, npts):
                sw = {}
                for c in range(3):
                    sw[P[i][c]] = P[j][c]
                    sw[P[j][c]] = P[i][c]
                n += 1
                chk.require(sp.expand(poly.xreplace(sw) + poly) == 0, "E3",
                            "%s changes sign when points %s and %s are exchanged" % (exact_name, names[i], names[j]), where(fe),
                            "P(swap) + P is not identically zero", function=fe["full"], construct="antisymmetry %s%s" %
                            (names[i], names[j]))
        # ---- E4 / E5: the filter -----------------------------------------------------------
        fev = FloatEval(fa, u)
        tailf = fev.run()
        locs = {d["n"]: ("l", d["id"]) for s in fa["body"]["s"] if s.get("k") == "Decl" for d in s["d"]}

        # the decision: which two locals are compared (result against +-errbound), and what is answered in the three cases
        cmps = []
        for st in tailf:
            exprs = [st["c"]] if st.get("k") == "If" else ([d["init"] for d in st["d"] if d.get("init") is not None]
                                                           if st.get("k") == "Decl" else [])
            for ex2 in exprs:
                for x in C.walk(ex2):
                    if x.get("k") == "Bin" and x["op"] in ("<", ">", "<=", ">="):
                        cmps.append(x)
        res_name = err_name = None
        for x in cmps:
            a0, b0 = C.strip_casts(x["a"]), C.strip_casts(x["b"])
            if a0.get("k") == "Ref" and a0.get("n") in locs:
                if b0.get("k") == "Ref" and b0.get("n") in locs:
                    res_name, err_name = a0["n"], b0["n"]
                elif b0.get("k") == "Un" and b0["op"] == "-" and C.strip_casts(b0["x"]).get("k") == "Ref":
                    res_name, err_name = a0["n"], C.strip_casts(b0["x"])["n"]

        def truth_case(case):
            def t(c):
                c = C.strip_casts(c)
                if c.get("k") != "Bin" or c["op"] not in ("<", ">", "<=", ">="):
                    return None
                a0, b0 = C.strip_casts(c["a"]), C.strip_casts(c["b"])
                if not (a0.get("k") == "Ref" and a0.get("n") == res_name):
                    return None
                neg = b0.get("k") == "Un" and b0["op"] == "-" and C.strip_casts(b0["x"]).get("n") == err_name
                pos = b0.get("k") == "Ref" and b0.get("n") == err_name
                if not (neg or pos):
                    return None
                # cases: 'below' r < -E, 'above' r > E, 'between' -E <= r <= E   (E >= 0)
                if neg:      # r ? -E
                    val = {"below": -1, "between": 1, "above": 1}[case]       # sign of r - (-E); between counts as >=
                    strict = {"below": True, "between": False, "above": True}[case]
                else:        # r ? E
                    val = {"below": -1, "between": -1, "above": 1}[case]
                    strict = {"below": True, "between": False, "above": True}[case]
                if c["op"] == "<":
                    return val < 0 and strict
                if c["op"] == ">":
                    return val > 0 and strict
                if c["op"] == "<=":
                    return val < 0 or not strict
                return val > 0 or not strict
            return t
        shape = False
        exact_call = None
        if res_name and err_name:
            try:
                rb = decide(tailf, truth_case("below"), u, cls)
                ra = decide(tailf, truth_case("above"), u, cls)
                rm = decide(tailf, truth_case("between"), u, cls)
                shape = rb is not None and ra is not None and rm is not None and C.const_int(rb) == -1 and \
                    C.const_int(ra) == 1 and rm.get("k") == "Call"
                exact_call = rm if rm is not None and rm.get("k") == "Call" else None
            except _Undecided:
                shape = False
        n += 1
        chk.require(shape and res_name in locs and err_name in locs, "E5",
                    "%s answers -1 below -errbound, +1 above +errbound and otherwise defers to the exact test" % adapt_name,
                    where((tailf or [fa])[0], fa), "the decision structure is not `r < -E -> -1; r > E -> +1; else exact`",
                    function=fa["full"], construct="filter decision")
        if not (shape and res_name in locs and err_name in locs):
            continue
        okcall = C.is_call(exact_call, name=exact_name) and \
            [C.strip_casts(a).get("n") for a in exact_call["a"]] == [p["n"] for p in fa["params"]]
        n += 1
        chk.require(okcall, "E5", "the fall-back calls %s with the same points in the same order" % exact_name,
                    where(exact_call or fa, fa), "fall-back is `%s`" % C.pretty(exact_call), function=fa["full"],
                    construct="fall-back call")
        R = fev.env[locs[res_name]]
        E = fev.env[locs[err_name]]
        # E4: same polynomial
        sub = {}
        for s, (p, q, comp) in fev.leaves.items():
            ip, iq = fev.points.index(p), fev.points.index(q)
            sub[s] = (P[ip][comp] - P[iq][comp])
        vf = sp.expand(R.v.xreplace(sub))
        n += 1
        chk.require(sp.expand(vf - poly) == 0, "E4", "the filter of %s evaluates the same polynomial as the exact test "
                    "(in units of 2^-%d)" % (adapt_name, 52 * deg), where(fa),
                    "the exact value of the floating-point expression differs from the integer polynomial", function=fa["full"],
                    construct="same polynomial")
        n += 1
        chk.require(R.deg == deg and R.e >= -52 * deg and -52 * deg > -1022, "E4",
                    "no product in the filter can underflow (smallest non-zero magnitude 2^%d)" % R.e, where(fa),
                    "degree %d, grid exponent %d" % (R.deg, R.e), function=fa["full"], construct="no underflow")
        # errbound = c * M(result)
        # squares of leaves (norm2) are their own absolute values: x^2 = |x|^2
        def evenpow(x):
            return x.is_Pow and x.base in fev.absof and x.exp.is_Integer and x.exp % 2 == 0
        Ev = sp.expand(E.v).replace(evenpow, lambda x: fev.absof[x.base] ** x.exp)
        Rm = sp.expand(R.m)
        diffq = None
        if Rm != 0:
            # constant ratio iff Ev - c Rm == 0 for the c read off one monomial
            t0 = sp.Add.make_args(Rm)[0]
            mono = sp.Mul(*[f for f in sp.Mul.make_args(t0) if not f.is_number])
            c_try = sp.Poly(Ev, *sorted(Ev.free_symbols | Rm.free_symbols, key=str)).coeff_monomial(mono) / \
                sp.Poly(Rm, *sorted(Ev.free_symbols | Rm.free_symbols, key=str)).coeff_monomial(mono)
            diffq = sp.expand(Ev - c_try * Rm)
        ratio = c_try if diffq == 0 else sp.simplify(Ev / Rm)
        n += 1
        opq = [v for s_, v in getattr(fev, "opaque_abs", {}).items() if s_ in Ev.free_symbols]
        if opq:
            chk.fail("E4", "the error bound of %s is a constant times the magnitude form of the guarded expression" % adapt_name,
                     where(fa), "the bound contains the absolute value of `%s` (line %s), an expression in which terms cancel: "
                     "its value can be arbitrarily smaller than the sum of the magnitudes of its terms, which is what the "
                     "rounding error of the determinant scales with; near-degenerate inputs then get a sign that is noise" %
                     (opq[0][0], opq[0][1]), function=fa["full"], construct="error bound form")
            continue
        chk.require(ratio.is_number and ratio > 0, "E4", "the error bound of %s is a constant times the magnitude form of "
                    "the guarded expression" % adapt_name, where(fa), "errbound / M(result) = %s is not a constant: a term of the "
                    "determinant has no counterpart in the bound (or vice versa)" % sp.factor(ratio), function=fa["full"],
                    construct="error bound form")
        if not (ratio.is_number and ratio > 0):
            continue
        c = Fraction(int(sp.numer(ratio)), int(sp.denom(ratio)))
        k, kE = R.k, E.k
        need = (1 + U) ** k - 1
        have = c * (1 - U) ** kE
        n += 1
        chk.require(have >= need, "E5", "%s: c = %.3g covers %d roundings of the result and %d of the bound: a non-zero "
                    "filter answer has the exact sign" % (adapt_name, float(c), k, kE), where(fa),
                    "c (1-u)^kE = %.3g < (1+u)^k - 1 = %.3g: round-off can exceed the bound, the filter may return a wrong "
                    "non-zero sign" % (float(have), float(need)), function=fa["full"], construct="filter constant")
        chk.extra.setdefault("filters", {})[adapt_name] = {"roundings_result": k, "roundings_bound": kE, "c": float(c),
                                                          "required": float(need), "integer_bits_needed": bits,
                                                          "integer_bits_available": width}
    # ---- E6: provenance of the arguments at every call site -----------------------------------------
    lib = prog.library()
    preds = ("orient3d_adaptive", "insphere_adaptive", "orient3d_exact", "insphere_exact")
    n6 = 0
    seen = set()
    for d in lib.decls:
        if d["kind"] != "function" or not d.get("body") or d.get("dependent") or d["full"] in seen:
            continue
        if d["full"].startswith(cls + "::"):
            continue
        seen.add(d["full"])
        inits = {}
        for s2 in C.walk_stmt(d["body"]):
            if s2.get("k") == "Decl":
                for dd in s2["d"]:
                    if dd.get("init") is not None:
                        inits[dd["id"]] = dd
        calls = []
        for s2 in C.walk_stmt(d["body"]):
            if s2.get("k") in ("Block", "If", "For", "While", "Do", "ForRange", "Switch"):
                continue
            exprs = [dd["init"] for dd in s2["d"] if dd.get("init") is not None] if s2.get("k") == "Decl" else [s2]
            if s2.get("k") == "Return" and s2.get("x") is not None:
                exprs = [s2["x"]]
            for ex in exprs:
                for x in C.walk(ex):
                    if x.get("k") == "Call" and x.get("n") in preds and (x.get("fn") or "").startswith(cls + "::") and \
                            not x.get("mac"):
                        calls.append(x)
        for x in calls:
            bad = []
            for a in x["a"]:
                a0 = C.strip_casts(a)
                while a0.get("k") == "Ctor" and len(a0.get("a", [])) == 1:
                    a0 = C.strip_casts(a0["a"][0])
                base = a0
                if base.get("k") == "Idx":
                    base = C.strip_casts(base["a"])
                src = inits.get(base.get("id")) if base.get("k") == "Ref" else None
                okp = False
                if src is not None:
                    srcs = [y for y in C.walk(src["init"]) if y.get("k") == "Call"]
                    gp = [y for y in srcs if y.get("n") == "get_position"]
                    # a plain local (or every element of a local array) initialised from get_position(...)
                    i0 = C.strip_casts(src["init"])
                    while i0.get("k") == "Ctor" and len(i0.get("a", [])) == 1:
                        i0 = C.strip_casts(i0["a"][0])
                    if i0.get("k") == "Call" and i0.get("n") == "get_position":
                        okp = True
                    elif i0.get("k") == "InitList" and i0.get("a") and all(
                            any(z.get("k") == "Call" and z.get("n") == "get_position" for z in C.walk(el)) for el in i0["a"]):
                        okp = True
                if not okp:
                    bad.append(C.pretty(a0))
            n6 += 1
            chk.require(not bad, "E6", "%s: every point passed to %s (line %s) comes from the position lookup get_position(...)" %
                        (d["full"].split("(")[0], x["n"], x.get("l")), where(x, d),
                        "arguments %s are not locals initialised from get_position(vertex, box, positions): the predicates' "
                        "[1,2) precondition is established only for looked-up (rescaled) positions" % bad, function=d["full"],
                        construct="provenance %s" % x["n"])
    chk.floor("E6", n6, 10)
    chk.floor("E", n, 35)
