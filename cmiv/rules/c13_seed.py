"""C13-X8: every random stream of the library is seeded by a value that is a function of the input.

"Same seed, same input, one thread: identical output" needs more than a correct generator: every `RandomGenerator`
anywhere in the library must be seeded from the parameter file, a literal, or arithmetic on those -- never from the
clock, the cycle counter, the process id, an address, the C library generator or std::random_device.

Whole-library, flow-insensitive, context-insensitive taint analysis over the resolved AST:

 sources   - the outputs of an inline assembler statement (the repository's cpucycle_tick macro is `rdtsc`),
           - calls of the frozen list NONDET (clock/time/pid/C-library generators/cycle counter builtins) and their
             out-parameters, constructions of std::random_device, std::chrono::*::now,
           - pointer-to-integer conversions (addresses differ from run to run);
 flow      - assignments and initialisations (to locals, to fields by qualified field name, through subscripts),
             arguments to parameters, returns to call sites (overriders of a virtual callee included), reference
             parameters written by a callee back to the caller's argument, constructor member initialisers,
             calls of functions without a body in the library: tainted result iff a tainted argument or object;
 sinks     - every argument of a RandomGenerator constructor and of RandomGenerator::set_seed.

Control dependence is not followed (a branch on the clock selecting between two literal seeds is not seen), and other
sources of run-to-run variation (uninitialised reads, iteration order of pointer-keyed containers, thread schedules
with more than one thread) are outside this rule.
"""
from .. import cfg as C
from ..astdb import AnalysisBroken, where

NONDET = {
    "time", "clock", "clock_gettime", "gettimeofday", "times", "getrusage", "ftime",
    "rand", "rand_r", "random", "srandom", "drand48", "lrand48", "mrand48", "erand48", "nrand48", "jrand48",
    "getpid", "getppid", "gettid", "getrandom", "getentropy", "arc4random", "arc4random_uniform",
    "omp_get_wtime", "omp_get_wtick", "MPI_Wtime",
    "__rdtsc", "__rdtscp", "__builtin_ia32_rdtsc", "__builtin_ia32_rdtscp", "__builtin_readcyclecounter",
    "_rdrand16_step", "_rdrand32_step", "_rdrand64_step", "_rdseed16_step", "_rdseed32_step", "_rdseed64_step",
    "pthread_self", "mkstemp", "tmpnam", "getenv",
}
NONDET_CLASSES = ("std::random_device", "std::chrono::")
ASSIGN_OPS = ("=", "+=", "-=", "*=", "/=", "%=", "<<=", ">>=", "&=", "|=", "^=")


def callee_name(x):
    return x.get("fn") or x.get("n") or ""


def is_nondet_call(x):
    fn = callee_name(x)
    base = fn.split("::")[-1]
    if base in NONDET and (fn == base or fn.startswith("std::") or "::" not in fn):
        return True
    if any(c in fn for c in NONDET_CLASSES) and base in ("now", "operator()", "entropy"):
        return True
    return False


class Taint:
    def __init__(self, lib):
        self.lib = lib
        self.fns = {}
        for d in lib.decls:
            if d["kind"] == "function" and d.get("body") is not None:
                self.fns.setdefault(d["full"], []).append(d)
        # overriders: base method full name -> derived implementations
        self.over = {}
        for lst in self.fns.values():
            for d in lst:
                for o in d.get("overrides") or []:
                    self.over.setdefault(o if isinstance(o, str) else o.get("full", ""), []).append(d)
        self.t = {}          # location -> (reason text, node, function)
        self.changed = False

    # locations: ("l", fn full, id) | ("f", qualified field) | ("g", qualified global) | ("ret", fn full) | ("w", fn full, index)
    def mark(self, loc, why, node, fn):
        if loc[0] == "f" and loc[1].startswith("RandomGenerator::"):
            # the state of a generator is a function of its seed, and the seed is a sink of its own: following the taint
            # through the (field-based, object-insensitive) generator state would only repeat the report at every other
            # generator of the library
            return
        if loc not in self.t:
            self.t[loc] = (why, node, fn)
            self.changed = True

    def root(self, e, fn):
        """Location written when e is assigned to."""
        e = C.strip_casts(e)
        while e is not None:
            k = e.get("k")
            if k == "Ref":
                if "id" in e:
                    return ("l", fn["full"], e["id"])
                return ("g", e.get("q") or e.get("n"))
            if k == "Mem":
                if e.get("dk") == "Field":
                    return ("f", e.get("q") or e["n"])
                return None
            if k == "Idx":
                e = C.strip_casts(e["a"])
            elif k == "Un" and e["op"] in ("*", "&"):
                e = C.strip_casts(e["x"])
            elif k == "Call" and e.get("op") in ("[]", "*", "->") and e.get("obj") is not None:
                e = C.strip_casts(e["obj"])
            elif k == "Call" and e.get("obj") is not None and e.get("n") in ("at", "front", "back", "data"):
                e = C.strip_casts(e["obj"])
            else:
                return None
        return None

    def tainted(self, e, fn):
        """Reason string when the value of e may depend on a non-deterministic source, else None."""
        for x in C.walk(e):
            k = x.get("k")
            if k == "Ref" and "id" in x:
                r = self.t.get(("l", fn["full"], x["id"]))
                if r:
                    return "`%s` <- %s" % (x["n"], r[0])
            elif k == "Ref" and x.get("dk") == "Var":
                r = self.t.get(("g", x.get("q") or x.get("n")))
                if r:
                    return "`%s` <- %s" % (x["n"], r[0])
            elif k == "Mem" and x.get("dk") == "Field":
                r = self.t.get(("f", x.get("q") or x["n"]))
                if r:
                    return "`%s` <- %s" % (x.get("q") or x["n"], r[0])
            elif k in ("Cast", "ICast") and x.get("ck") == "PointerToIntegral":
                return "pointer-to-integer conversion at line %s" % x.get("l")
            elif k == "Ctor" and any((x.get("cls") or "").startswith(c) for c in NONDET_CLASSES):
                return "%s constructed at line %s" % (x.get("cls"), x.get("l"))
            elif k == "Call":
                if is_nondet_call(x):
                    return "%s() at line %s" % (callee_name(x), x.get("l"))
                for d in self.candidates(callee_name(x), x):
                    r = self.t.get(("ret", d["full"]))
                    if r:
                        return "%s() <- %s" % (d["full"], r[0])
        return None

    def candidates(self, name, call, ctor=False):
        """Library definitions a call may run: the overload with the call's parameter types when it can be told apart."""
        cands = [d for d in self.fns.get(name, []) if bool(d.get("ctor")) == ctor]
        if not ctor:
            cands += self.over.get(name, [])
        pt = call.get("pt")
        if pt is not None and len(cands) > 1:
            exact = [d for d in cands if [p.get("t") for p in d["params"]] == list(pt)]
            if exact:
                return exact + (self.over.get(name, []) if not ctor else [])
        return cands

    def scan(self, fn):
        full = fn["full"]
        for init in fn.get("inits") or []:
            if init.get("x") is not None and init.get("member"):
                r = self.tainted(init["x"], fn)
                if r:
                    self.mark(("f", "%s::%s" % (fn.get("clsq") or fn.get("cls"), init["member"])), r, init["x"], fn)
        pidx = {p["id"]: i for i, p in enumerate(fn["params"]) if "id" in p}
        for s in C.walk_stmt(fn["body"]):
            k = s.get("k")
            if k == "OtherStmt" and "Asm" in (s.get("cls") or ""):
                for x in s.get("ch", []):
                    for y in C.walk(x):
                        loc = self.root(y, fn) if y.get("k") in ("Ref", "Mem") else None
                        if loc:
                            self.mark(loc, "inline assembler at %s:%s%s" % (
                                fn["file"].split("/")[-1], s.get("l"), " (macro %s)" % s["mac"] if s.get("mac") else ""), s, fn)
            elif k == "Decl":
                for d in s["d"]:
                    if d.get("init") is not None:
                        r = self.tainted(d["init"], fn)
                        if r:
                            self.mark(("l", full, d["id"]), r, s, fn)
            elif k == "Bin" and s["op"] in ASSIGN_OPS:
                r = self.tainted(s["b"], fn)
                if r:
                    loc = self.root(s["a"], fn)
                    if loc:
                        self.mark(loc, r, s, fn)
                        if loc[0] == "l" and loc[2] in pidx:
                            self.mark(("w", full, pidx[loc[2]]), r, s, fn)
            elif k == "Call" and s.get("op") == "=" and s.get("obj") is not None and s["a"]:
                r = self.tainted(s["a"][0], fn)
                if r:
                    loc = self.root(s["obj"], fn)
                    if loc:
                        self.mark(loc, r, s, fn)
            elif k == "Return" and s.get("x") is not None:
                r = self.tainted(s["x"], fn)
                if r:
                    self.mark(("ret", full), r, s, fn)
            if k == "Call":
                name = callee_name(s)
                if is_nondet_call(s):
                    # out-parameters
                    for a in s["a"]:
                        a0 = C.strip_casts(a)
                        if a0 is not None and a0.get("k") == "Un" and a0["op"] == "&":
                            loc = self.root(a0["x"], fn)
                            if loc:
                                self.mark(loc, "%s() at %s:%s" % (name, fn["file"].split("/")[-1], s.get("l")), s, fn)
                    continue
                for d in self.candidates(name, s):
                    for i, a in enumerate(s["a"]):
                        if i >= len(d["params"]) or "id" not in d["params"][i]:
                            continue
                        r = self.tainted(a, fn)
                        if r:
                            self.mark(("l", d["full"], d["params"][i]["id"]), r, s, fn)
                        w = self.t.get(("w", d["full"], i))
                        if w and "&" in (d["params"][i].get("t") or "") and "const" not in (d["params"][i].get("t") or ""):
                            loc = self.root(a, fn)
                            if loc:
                                self.mark(loc, "%s() <- %s" % (d["full"], w[0]), s, fn)
            elif k == "Ctor":
                name = "%s::%s" % (s.get("cls"), (s.get("cls") or "").split("::")[-1])
                for d in self.candidates(name, s, ctor=True):
                    if len(d["params"]) < len(s["a"]):
                        continue
                    for i, a in enumerate(s["a"]):
                        if "id" not in d["params"][i]:
                            continue
                        r = self.tainted(a, fn)
                        if r:
                            self.mark(("l", d["full"], d["params"][i]["id"]), r, s, fn)

    def solve(self):
        rounds = 0
        while True:
            rounds += 1
            self.changed = False
            for lst in self.fns.values():
                for fn in lst:
                    self.scan(fn)
            if not self.changed:
                return rounds
            if rounds > 60:
                raise AnalysisBroken("seed taint analysis did not reach a fixpoint in 60 rounds")


def rule_X8(chk, prog):
    lib = prog.library()
    ta = Taint(lib)
    rounds = ta.solve()
    # the engine is alive: the task timers of the repository are seen as cycle-counter values
    alive = [loc for loc in ta.t if loc[0] == "f" and loc[1] in ("Task::_end_time", "Task::_start_time")]
    if len(alive) < 2:
        raise AnalysisBroken("seed taint analysis: the cycle-counter stamps Task::_start_time/_end_time are not recognised "
                             "as non-deterministic (positive example lost)")
    n = 0
    seen = set()
    for lst in ta.fns.values():
        for fn in lst:
            if fn.get("cls") == "RandomGenerator":
                continue      # the constructor forwarding its own parameter to set_seed: the sink is the constructor call
            sinks = []
            for init in fn.get("inits") or []:
                if init.get("x") is not None:
                    sinks += [(x, "member %s" % init.get("member")) for x in C.walk(init["x"])
                              if x.get("k") == "Ctor" and x.get("cls") == "RandomGenerator"]
            for s in C.walk_stmt(fn["body"]):
                if s.get("k") == "Ctor" and s.get("cls") == "RandomGenerator" and not s.get("copy"):
                    sinks.append((s, "constructor"))
                elif s.get("k") == "Call" and callee_name(s) == "RandomGenerator::set_seed":
                    sinks.append((s, "set_seed"))
            for s, what in sinks:
                if (fn["file"], s.get("l"), s.get("c"), what) in seen:
                    continue
                seen.add((fn["file"], s.get("l"), s.get("c"), what))
                args = [a for a in s["a"] if C.strip_casts(a) is not None]
                if len(args) == 1 and C.strip_casts(args[0]).get("k") == "Ref" and \
                        (C.strip_casts(args[0]).get("t") or "").replace("const ", "").strip() == "RandomGenerator":
                    continue    # copy of another generator
                n += 1
                r = None
                for a in args:
                    r = r or ta.tainted(a, fn)
                desc = ", ".join(C.pretty(a)[:60] for a in args) or "default"
                chk.require(r is None, "X8", "the seed `%s` given to the RandomGenerator %s at %s:%s is a function of the input" %
                            (desc, what, fn["file"].split("/")[-1], s.get("l")), where(s, fn),
                            "the seed depends on a value that differs between two runs of the same input: %s" % r,
                            function=fn["full"], construct="seed %s" % what)
    chk.note("X8: %d tainted locations after %d rounds over %d functions" % (len(ta.t), rounds, sum(len(v) for v in ta.fns.values())))
    return n
