"""C02-T4: every estimator grows by weight x cross section x path length.

"Each visited cell's estimators grow by weight x cross-section x path length" is a statement about the *factors* of what
DensitySubGrid::update_intensity_counters adds.  A multiplicative provenance over its body: the factor set of an
expression is the set of {weight, distance, cross-section} sources it is a product of - a call photon.get_weight() /
get_photoionization_cross_section(.) and the path-length parameter are the sources, a product unites the factor sets of
its operands, a sum / difference keeps what ALL its terms carry, a local or an array element carries what was stored in it
(for an array: what every store into it carries), a division keeps the numerator's factors.  Every value handed to
increase_mean_intensity / increase_heating must carry all three.  Which cross section and which energy difference are
used is not decided here.
"""
from .. import cfg as C
from ..astdb import AnalysisBroken, where

SINKS = ("increase_mean_intensity", "increase_heating")
ALL = frozenset(("weight", "distance", "cross-section"))


def rule_T4(chk, u):
    fn = u.func("DensitySubGrid::update_intensity_counters")
    chk.analysed(function=fn["full"])
    # helpers read in place
    fn = C.with_inlined_helpers(fn, [m for m in u.methods_of("DensitySubGrid") if m.get("body") is not None])
    dist = [p for p in fn["params"] if (p.get("t") or "").replace("const ", "").strip() == "double"]
    if len(dist) != 1:
        raise AnalysisBroken("%s: path-length parameter not found" % fn["full"])
    store = {}          # local id -> factor set (arrays: intersection over the stores)

    def factors(e, depth=0):
        e = C.strip_casts(e)
        if e is None or depth > 12:
            return frozenset()
        k = e.get("k")
        if k == "Ref" and e.get("id") == dist[0]["id"]:
            return frozenset(["distance"])
        if k == "Ref" and e.get("id") in store:
            return store[e["id"]]
        if k == "Call" and e.get("n") == "get_weight":
            return frozenset(["weight"])
        if k == "Call" and e.get("n") == "get_photoionization_cross_section":
            return frozenset(["cross-section"])
        if k == "Idx":
            return factors(e["a"], depth + 1)
        if k == "Call" and e.get("op") == "[]" and e.get("obj") is not None:
            return factors(e["obj"], depth + 1)
        if k == "Bin" and e.get("op") == "*":
            return factors(e["a"], depth + 1) | factors(e["b"], depth + 1)
        if k == "Bin" and e.get("op") == "/":
            return factors(e["a"], depth + 1)
        if k == "Bin" and e.get("op") in ("+", "-"):
            return factors(e["a"], depth + 1) & factors(e["b"], depth + 1)
        if k == "Un" and e.get("op") == "-":
            return factors(e["x"], depth + 1)
        if k == "Cond":
            return factors(e["a"], depth + 1) & factors(e["b"], depth + 1)
        if k == "Ctor" and len(e.get("a", [])) == 1:
            return factors(e["a"][0], depth + 1)
        return frozenset()

    def root_id(e):
        e = C.strip_casts(e)
        while e is not None and e.get("k") in ("Idx",) or (e is not None and e.get("k") == "Call" and e.get("op") == "[]"):
            e = C.strip_casts(e["a"] if e.get("k") == "Idx" else e["obj"])
        return e.get("id") if e is not None and e.get("k") == "Ref" else None

    n = 0
    sinks = []

    def walk(s):
        nonlocal n
        if s is None:
            return
        k = s.get("k")
        if k == "Block":
            if s.get("mac"):
                return
            for x in s["s"]:
                walk(x)
        elif k == "Decl":
            for d in s["d"]:
                if d.get("init") is not None and C.strip_casts(d["init"]).get("k") != "InitList":
                    store[d["id"]] = factors(d["init"])
        elif k in ("For", "While", "Do", "ForRange"):
            walk(s.get("init"))
            walk(s.get("body"))
            walk(s.get("body"))
        elif k == "If":
            walk(s["th"])
            walk(s.get("el"))
        else:
            e = C.strip_casts(s)
            if e.get("k") == "Bin" and e.get("op") in ("=", "*=", "+=", "-="):
                rid = root_id(e["a"])
                if rid is not None:
                    f = factors(e["b"])
                    is_elem = C.strip_casts(e["a"]).get("k") != "Ref"
                    if e["op"] == "*=":
                        f = f | store.get(rid, frozenset())
                    elif e["op"] in ("+=", "-="):
                        f = f & store.get(rid, ALL)
                    elif is_elem and rid in store:
                        f = f & store[rid]
                    store[rid] = f
            for x in C.walk(e):
                if C.is_call(x) and x.get("n") in SINKS and x.get("a") and not any(x is y for y, _ in sinks):
                    sinks.append((x, factors(x["a"][-1])))
    walk(fn["body"])
    seen = set()
    for x, f in sinks:
        if id(x) in seen:
            continue
        seen.add(id(x))
        n += 1
        missing = sorted(ALL - f)
        chk.require(not missing, "T4", "%s(%s, ...) adds weight x cross section x path length" %
                    (x["n"], C.pretty(x["a"][0])[:30]), where(x, fn),
                    "the value `%s` is not a product that contains the %s: the estimator of the cell grows by an amount that "
                    "does not scale with it" % (C.pretty(x["a"][-1])[:70], " and the ".join(missing)), function=fn["full"],
                    construct="estimator factors %s" % C.pretty(x["a"][0])[:30])
    return n
