"""C03-D8: the neighbour table that create_subgrid gives a subgrid is the geometric one (assumption A1, decided by cases).

Every rule of C03 / C02 / C01 that speaks about "the neighbour in direction d" assumes that neighbour(d) of subgrid (ix, iy,
iz) is the subgrid at (ix, iy, iz) + signature(d), wrapped on periodic axes, and NEIGHBOUR_OUTSIDE where that leaves a
non-periodic box.  The table is filled by integer index arithmetic in DensitySubGridCreator::create_subgrid.  The function's
integer code is evaluated *by cases*: for every number of subgrids per axis in {1, 2, 3}, every periodicity flag and every
subgrid of that layout (27 x 8 layouts, up to 27 subgrids each) the statements are interpreted over the integers - loops
over the 27 offsets, the wrap tests, the index formula, and get_output_direction through the exit classification that
C02-T1 extracts - and the resulting table is compared with the geometric one for all 27 directions (INSIDE included: the
subgrid is its own neighbour for packets that stay).

Per axis the code only compares c = i + n (n in -1, 0, 1) with 0 and with the number of subgrids N, so N = 1 (a subgrid
that is its own periodic image), N = 2 (both neighbours are the same subgrid) and N = 3 (all different) are all the
orderings that any N can produce.  Nothing is executed: the interpreter walks the exported syntax tree.
"""
import itertools

from .. import cfg as C
from ..astdb import AnalysisBroken, where


class _Ret(Exception):
    def __init__(self, v=None):
        Exception.__init__(self)
        self.v = v


def rule_D8(chk, lib, dirs):
    fns = [d for d in lib.decls if d["kind"] == "function" and d.get("body") and not d.get("dependent") and
           d["full"].split("(")[0].endswith("::create_subgrid") and "DensitySubGridCreator<" in d["full"]]
    if not fns:
        raise AnalysisBroken("DensitySubGridCreator<...>::create_subgrid not found")
    enums = {}
    for nm in ("TRAVELDIRECTION_NUMBER", "TRAVELDIRECTION_INSIDE"):
        if nm in dirs.enum:
            enums[nm] = dirs.enum[nm]
    sig_to_dir = {tuple(s): d for d, s in dirs.sig.items()}
    if len(sig_to_dir) != 27:
        raise AnalysisBroken("D8: the exit classification does not give 27 directions")
    n = 0
    seen_src = set()
    by_name = {}
    for d in lib.decls:
        if d["kind"] == "function" and d.get("body") is not None and not d.get("dependent"):
            by_name.setdefault(d["full"].split("(")[0], []).append(d)
    for fn in sorted(fns, key=lambda f: f["full"]):
        key = (fn.get("file"), fn.get("line"))
        chk.analysed(function=fn["full"])
        if len(fn["params"]) != 1:
            raise AnalysisBroken("%s: expected one index parameter" % fn["full"])
        ncell = (4, 5, 6)
        bad = None
        cases = 0
        for N in itertools.product((1, 2, 3), repeat=3):
            for per in itertools.product((False, True), repeat=3):
                for index in range(N[0] * N[1] * N[2]):
                    table = interpret(fn, index, N, per, ncell, sig_to_dir, enums, by_name)
                    cases += 1
                    ix, iy, iz = index // (N[1] * N[2]), (index // N[2]) % N[1], index % N[2]
                    for d, s in dirs.sig.items():
                        off = [{"N": -1, ".": 0, "P": 1}[c] for c in s]
                        c3 = []
                        outside = False
                        for ax, (i0, o) in enumerate(zip((ix, iy, iz), off)):
                            c = i0 + o
                            if c < 0 or c >= N[ax]:
                                if per[ax]:
                                    c %= N[ax]
                                else:
                                    outside = True
                            c3.append(c)
                        want = "OUTSIDE" if outside else c3[0] * N[1] * N[2] + c3[1] * N[2] + c3[2]
                        got = table.get(d, "unset")
                        if got != want and bad is None:
                            bad = (N, per, index, d, s, got, want)
        n += 1
        seen_src.add(key)
        if bad is None:
            chk.ok("D8", "%s: neighbour(d) is the subgrid at offset signature(d), wrapped on periodic axes, OUTSIDE beyond a "
                   "non-periodic face - for 1, 2 and 3 subgrids per axis, every periodicity and every subgrid (%d cases x 27 "
                   "directions)" % (fn["full"].split("(")[0], cases), where(fn))
        else:
            N, per, index, d, s, got, want = bad
            chk.fail("D8", "%s: neighbour(d) is the subgrid at offset signature(d), wrapped on periodic axes" %
                     fn["full"].split("(")[0], where(fn),
                     "with %s subgrids, periodicity %s, subgrid %d: neighbour(%s) [offset %s] is %s, the geometric neighbour is %s: "
                     "a packet leaving in that direction is handed to the wrong subgrid (or counted as escaped / lost)" %
                     ("x".join(map(str, N)), "".join("TF"[not p] for p in per), index, dirs.name(d), "".join(s), got, want),
                     function=fn["full"], construct="neighbour wiring")
    return n


def interpret(fn, index, N, per, ncell, sig_to_dir, enums, lib=None, env=None, table=None, depth=0):
    top = env is None
    env = {fn["params"][0]["id"]: index} if env is None else env
    table = {} if table is None else table
    OUTSIDE = "OUTSIDE"

    def member(e):
        """value of a member access chain, or None"""
        e = C.strip_casts(e)
        k = e.get("k")
        if k == "Call" and e.get("op") == "[]" and e.get("obj") is not None:
            m = C.member_name(e["obj"])
            i = ev(e["a"][0])
            if m == "_number_of_subgrids":
                return N[i]
            if m == "_subgrid_number_of_cells":
                return ncell[i]
            return None
        if k == "Call" and e.get("obj") is not None and e.get("n") in ("x", "y", "z") and not e.get("a"):
            m = C.member_name(e["obj"])
            i = "xyz".index(e["n"])
            if m == "_periodicity":
                return per[i]
            if m == "_number_of_subgrids":
                return N[i]
            if m == "_subgrid_number_of_cells":
                return ncell[i]
        return None

    def ev(e):
        e = C.strip_casts(e)
        k = e.get("k")
        if k == "Int":
            v = int(e["v"])
            return OUTSIDE if v == 4294967295 else v
        if k == "Bool":
            return bool(e["v"])
        if k == "Ref":
            if e.get("id") in env:
                return env[e["id"]]
            if e.get("n") in enums:
                return enums[e["n"]]
            if e.get("dk") == "EnumConstant" and "v" in e:
                return int(e["v"])
            raise AnalysisBroken("D8: `%s` has no integer value (line %s)" % (e.get("n"), e.get("l")))
        if k == "Un":
            if e["op"] == "-":
                return -ev(e["x"])
            if e["op"] == "!":
                return not ev(e["x"])
            if e["op"] in ("pre++", "post++", "pre--", "post--"):
                t = C.strip_casts(e["x"])
                old = env[t["id"]]
                env[t["id"]] = old + (1 if "++" in e["op"] else -1)
                return old if e["op"].startswith("post") else env[t["id"]]
        if k == "Bin":
            op = e["op"]
            if op == "&&":
                return bool(ev(e["a"])) and bool(ev(e["b"]))
            if op == "||":
                return bool(ev(e["a"])) or bool(ev(e["b"]))
            if op == "=":
                t = C.strip_casts(e["a"])
                if t.get("k") == "Ref" and "id" in t:
                    env[t["id"]] = ev(e["b"])
                    return env[t["id"]]
                raise AnalysisBroken("D8: assignment to `%s`" % C.pretty(t))
            if op in ("+=", "-="):
                t = C.strip_casts(e["a"])
                env[t["id"]] = env[t["id"]] + (ev(e["b"]) if op == "+=" else -ev(e["b"]))
                return env[t["id"]]
            a, b = ev(e["a"]), ev(e["b"])
            if op == "+":
                return a + b
            if op == "-":
                return a - b
            if op == "*":
                return a * b
            if op == "/":
                q = abs(a) // abs(b)
                return q if (a >= 0) == (b >= 0) else -q
            if op == "%":
                return a - b * (abs(a) // abs(b) * (1 if (a >= 0) == (b >= 0) else -1))
            if op in ("<", ">", "<=", ">=", "==", "!="):
                return {"<": a < b, ">": a > b, "<=": a <= b, ">=": a >= b, "==": a == b, "!=": a != b}[op]
        if k == "Cond":
            return ev(e["a"]) if ev(e["c"]) else ev(e["b"])
        if k == "Ctor" and len(e.get("a", [])) == 3:
            return tuple(ev(x) for x in e["a"])
        if k == "Ctor" and len(e.get("a", [])) == 1:
            return ev(e["a"][0])
        if k == "Call":
            mv = member(e)
            if mv is not None:
                return mv
            if e.get("n") == "get_output_direction" and len(e["a"]) == 1:
                t3 = ev(e["a"][0])
                if not isinstance(t3, tuple):
                    raise AnalysisBroken("D8: argument of get_output_direction is not a triple")
                cls = tuple("N" if v < 0 else ("P" if v >= nc else ".") for v, nc in zip(t3, ncell))
                return sig_to_dir[cls]
            if e.get("op") == "[]" and e.get("obj") is not None:
                o = ev(e["obj"])
                if isinstance(o, tuple):
                    return o[ev(e["a"][0])]
            if e.get("n") in ("x", "y", "z") and e.get("obj") is not None and not e.get("a"):
                o = ev(e["obj"])
                if isinstance(o, tuple):
                    return o["xyz".index(e["n"])]
            if lib is not None and e.get("fn") and not e.get("op") and depth < 4:
                if not isinstance(lib, dict):
                    raise AnalysisBroken("D8: callee index missing")
                cands = [d for d in lib.get(e["fn"], ()) if len(d["params"]) == len(e["a"])]
                if cands:
                    sub_env = {p_["id"]: ev(a_) for p_, a_ in zip(cands[0]["params"], e["a"]) if "id" in p_}
                    return interpret(cands[0], index, N, per, ncell, sig_to_dir, enums, lib, sub_env, table, depth + 1)
        raise AnalysisBroken("D8: expression `%s` (line %s) is not integer index arithmetic" % (C.pretty(e)[:60], e.get("l")))

    def is_int_type(t):
        t = (t or "").replace("const ", "")
        return any(x in t for x in ("int", "long", "size_t", "bool")) and "*" not in t and "double" not in t

    def run(s):
        if s is None:
            return
        k = s.get("k")
        if k == "Block":
            if s.get("mac"):
                return
            for x in s["s"]:
                run(x)
        elif k == "Decl":
            for d in s["d"]:
                if d.get("init") is None:
                    continue
                if is_int_type(d.get("t")) or "CoordinateVector<long>" in (d.get("t") or "") or \
                        "CoordinateVector<int" in (d.get("t") or ""):
                    env[d["id"]] = ev(d["init"])
        elif k == "If":
            if ev(s["c"]):
                run(s["th"])
            else:
                run(s.get("el"))
        elif k == "For":
            run(s.get("init"))
            it = 0
            while s.get("c") is None or ev(s["c"]):
                try:
                    run(s["body"])
                except _Continue:
                    pass
                except _Break:
                    break
                if s.get("inc") is not None:
                    ev(s["inc"])
                it += 1
                if it > 1000:
                    raise AnalysisBroken("D8: a loop of create_subgrid does not end")
        elif k == "While":
            it = 0
            while ev(s["c"]):
                try:
                    run(s["body"])
                except _Continue:
                    pass
                except _Break:
                    break
                it += 1
                if it > 1000:
                    raise AnalysisBroken("D8: a loop of create_subgrid does not end")
        elif k == "Continue":
            raise _Continue()
        elif k == "Break":
            raise _Break()
        elif k == "Return":
            raise _Ret(ev(s["x"]) if (s.get("x") is not None and not top) else None)
        elif k == "Null":
            return
        else:
            e = C.strip_casts(s)
            if e.get("k") == "Call" and e.get("n") == "set_neighbour" and len(e["a"]) == 2:
                table[ev(e["a"][0])] = ev(e["a"][1])
                return
            if e.get("k") == "Call" and e.get("n") in ("set_active_buffer", "set_owning_thread"):
                return
            if e.get("k") in ("Bin", "Un"):
                ev(e)
                return
            raise AnalysisBroken("D8: statement at line %s of create_subgrid is not part of the wiring" % s.get("l"))
    try:
        run(fn["body"])
    except _Ret as r:
        if not top:
            return r.v
    if not top:
        return None
    return table


class _Continue(Exception):
    pass


class _Break(Exception):
    pass
