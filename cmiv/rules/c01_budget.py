"""C01-R10: the packets requested are split between the source types without loss.

TaskBasedIonizationSimulation::run gives every source type a packet budget taken from the requested number N
(`_number_of_photons`) and waits until N packets have terminated.  The locals that receive N are followed symbolically
through the set-up code (assignments, shifts, the `if`s that halve the budgets when both source types are present; opaque
conditions fork), and on every path, when the main loop is reached, the budgets must add up to N exactly - or all be 0
(no source).  `N >> 1` is floor(N / 2), so `N - (N >> 1)` is accepted and `(N >> 1) + (N >> 1)` is not (odd N).
"""
import sympy as sp

from .. import cfg as C
from ..astdb import AnalysisBroken, where
from ..sym import Converter, Env

INT_OK = ("unsigned", "int", "long", "short")


def rule_R10(chk, drv, request_member="_number_of_photons"):
    body = drv["body"]["s"]
    N = sp.Symbol("N", integer=True, positive=True)
    # budget locals: integer locals that are assigned the request member somewhere before the main loop
    region = []
    for st in body:
        if st.get("k") in ("While", "For", "Do", "OMP") and not st.get("mac"):
            break
        region.append(st)
    if len(region) == len(body):
        raise AnalysisBroken("%s: no main loop found after the set-up code" % drv["full"])
    budgets = {}
    int_locals = set()

    def mentions_request(e):
        return e is not None and any(C.member_name(x) == request_member for x in C.walk(e))
    for st in region:
        for x in C.walk_stmt(st):
            if x.get("k") == "Bin" and x.get("op") == "=" and mentions_request(x["b"]):
                a = C.strip_casts(x["a"])
                if a.get("k") == "Ref" and "id" in a and "const" not in (a.get("t") or ""):
                    budgets[a["id"]] = a["n"]
            if x.get("k") == "Decl":
                for d in x["d"]:
                    t = d.get("t") or ""
                    if any(tt in t for tt in INT_OK) and "*" not in t and "<" not in t:
                        int_locals.add(d["id"])
                        if d.get("init") is not None and mentions_request(d["init"]) and "const" not in t:
                            budgets[d["id"]] = d["n"]
    if len(budgets) < 2:
        raise AnalysisBroken("%s: fewer than two packet budgets are taken from %s" % (drv["full"], request_member))

    def atoms(key, e):
        if C.member_name(e) == request_member:
            return N
        return None
    conv = Converter(atoms=atoms, integer=True)

    def value(e, env):
        e0 = C.strip_casts(e)
        if e0.get("k") == "Cond":
            t_ = truth(e0["c"], env)
            if t_ is not None:
                return value(e0["a"] if t_ else e0["b"], env)
            return sp.Piecewise((value(e0["a"], env), sp.Symbol("cond_%s" % e0.get("l"))), (value(e0["b"], env), True))
        if e0.get("k") == "Bin" and e0["op"] in (">>", "<<") and C.const_int(e0["b"]) is not None:
            v = value(e0["a"], env)
            c = C.const_int(e0["b"])
            return sp.floor(v / 2 ** c) if e0["op"] == ">>" else v * 2 ** c
        if e0.get("k") == "Bin" and e0["op"] in ("+", "-", "*"):
            a, b = value(e0["a"], env), value(e0["b"], env)
            return {"+": a + b, "-": a - b, "*": a * b}[e0["op"]]
        if e0.get("k") == "Bin" and e0["op"] == "/" and C.const_int(e0["b"]):
            return sp.floor(value(e0["a"], env) / C.const_int(e0["b"]))
        return conv.conv(e0, env)

    def truth(e, env):
        """True / False / None (opaque) of a condition over the budgets."""
        e0 = C.strip_casts(e)
        k = e0.get("k")
        if k == "Un" and e0["op"] == "!":
            t = truth(e0["x"], env)
            return None if t is None else not t
        if k == "Bin" and e0["op"] in ("&&", "||"):
            a, b = truth(e0["a"], env), truth(e0["b"], env)
            if e0["op"] == "&&":
                if a is False or b is False:
                    return False
                return True if (a is True and b is True) else None
            if a is True or b is True:
                return True
            return False if (a is False and b is False) else None
        if k == "Bin" and e0["op"] in ("<", ">", "<=", ">=", "==", "!="):
            refs = [r for r in C.walk(e0) if r.get("k") == "Ref" and r.get("id") in budgets]
            if not refs:
                return None
            try:
                a, b = value(e0["a"], env), value(e0["b"], env)
            except AnalysisBroken:
                return None
            d = sp.simplify(a - b)
            if d.is_positive:
                return e0["op"] in (">", ">=", "!=")
            if d.is_negative:
                return e0["op"] in ("<", "<=", "!=")
            if d.is_zero:
                return e0["op"] in ("<=", ">=", "==")
            if d.is_nonnegative and e0["op"] == ">=":
                return True
            return None
        if k == "Ref" and env.vals.get(("l", e0.get("id"))) in (sp.true, sp.false):
            return env.vals[("l", e0["id"])] == sp.true
        if k == "Ref" and e0.get("id") in budgets:
            v = env.vals.get(("l", e0["id"]))
            if v is not None and v.is_positive:
                return True
            if v is not None and v.is_zero:
                return False
        return None
    paths = []

    def run(stmts, env, conds):
        for i, st in enumerate(stmts):
            k = st.get("k")
            if k == "Block":
                if st.get("mac"):
                    continue
                return run(st["s"] + stmts[i + 1:], env, conds)
            if k == "Decl" and len(st["d"]) == 1 and (st["d"][0].get("t") or "").replace("const ", "").strip() == "bool" and \
                    st["d"][0].get("init") is not None and C.strip_casts(st["d"][0]["init"]).get("k") != "Bool" and \
                    any(x.get("k") == "Ref" and x.get("id") == st["d"][0]["id"] for s2 in stmts[i + 1:] for x in C.walk_stmt(s2)):
                # a flag computed from the configuration: both values, as a condition of the path
                d = st["d"][0]
                t0 = truth(d["init"], env)
                for val in (True, False):
                    if t0 is not None and t0 != val:
                        continue
                    e2 = env.copy()
                    e2.vals[("l", d["id"])] = sp.true if val else sp.false
                    run(stmts[i + 1:], e2, conds + [("" if val else "not ") + d["n"]])
                return
            if k == "Decl":
                for d in st["d"]:
                    if d["id"] in budgets or d["id"] in int_locals:
                        try:
                            env.vals[("l", d["id"])] = value(d["init"], env) if d.get("init") is not None else sp.Integer(0)
                        except AnalysisBroken:
                            if d["id"] in budgets:
                                raise
            elif k == "Bin" and st.get("op", "").endswith("=") and st["op"] not in ("==", "!=", "<=", ">="):
                a = C.strip_casts(st["a"])
                if a.get("k") == "Ref" and (a.get("id") in budgets or a.get("id") in int_locals):
                    key = ("l", a["id"])
                    old = env.vals.get(key, sp.Integer(0))
                    op = st["op"]
                    if op == "=":
                        env.vals[key] = value(st["b"], env)
                    elif op in (">>=", "<<=") and C.const_int(st["b"]) is not None:
                        c = C.const_int(st["b"])
                        env.vals[key] = sp.floor(old / 2 ** c) if op == ">>=" else old * 2 ** c
                    elif op in ("+=", "-=", "*="):
                        v = value(st["b"], env)
                        env.vals[key] = {"+=": old + v, "-=": old - v, "*=": old * v}[op]
                    elif op == "/=" and C.const_int(st["b"]):
                        env.vals[key] = sp.floor(old / C.const_int(st["b"]))
                    else:
                        raise AnalysisBroken("%s: update `%s` of a packet budget not understood" % (drv["full"], C.pretty(st)[:60]))
            elif k == "If":
                writes = any((x.get("k") == "Bin" and C.strip_casts(x["a"]).get("id") in budgets) or
                             (x.get("k") == "Decl" and any(d["id"] in budgets for d in x["d"]))
                             for br in (st["th"], st.get("el")) if br is not None for x in C.walk_stmt(br))
                if not writes:
                    continue
                t = truth(st["c"], env)
                rest = stmts[i + 1:]
                for taken, br in ((True, st["th"]), (False, st.get("el"))):
                    if t is not None and t != taken:
                        continue
                    e2 = env.copy()
                    run(([br] if br is not None else []) + rest, e2, conds + [("" if taken else "not ") + C.pretty(st["c"])[:50]])
                return
            elif k in ("For", "While", "Do", "Switch"):
                if any(x.get("k") == "Bin" and C.strip_casts(x["a"]).get("id") in budgets and x.get("op", "").endswith("=") and
                       x["op"] not in ("==", "!=", "<=", ">=") for x in C.walk_stmt(st)):
                    raise AnalysisBroken("%s: a packet budget is written inside a loop of the set-up code (line %s)" %
                                         (drv["full"], st.get("l")))
        paths.append((conds, {b: env.vals.get(("l", b), sp.Integer(0)) for b in budgets}))
    run(region, Env(), [])
    n = 0
    for conds, vals in paths:
        total = sp.simplify(sum(vals.values()))
        allzero = all(v == 0 for v in vals.values())
        n += 1
        desc = ", ".join("%s = %s" % (budgets[b], vals[b]) for b in sorted(budgets, key=lambda z: budgets[z]))
        chk.require(allzero or sp.simplify(total - N) == 0, "R10", "set-up path [%s]: the packet budgets add up to the request (%s)" %
                    ("; ".join(conds) or "unconditional", desc), where(drv),
                    "the budgets add up to %s instead of N = %s: %s packets are launched while the iteration waits for N to "
                    "terminate" % (total, request_member, total), function=drv["full"], construct="packet budget split")
    return n
