"""C03-D7: the copy list and the copy-to-original map stay parallel.

DensitySubGridCreator appends a copy to `_subgrids` and its original's index to `_originals` in the same step; every
reader (the fold into the originals, the property update of the copies, the iterator) indexes `_originals` with
(subgrid index - number of originals).  The invariant |_subgrids| = N + |_originals| is decided structurally:

  1. pairs of vector members that receive a push_back in the same block of some method are *parallel containers*;
  2. in every other (non-constructor) method a shrinking operation on one of them - clear, resize, pop_back, erase,
     assignment, swap - is accompanied on every path by a shrinking operation on its partner, before any call that appends
     to them again.

A method that drops the copies from `_subgrids` but leaves `_originals` alone (or vice versa) makes every later append
continue a map whose first entries describe copies that no longer exist.
"""
from .. import cfg as C
from ..astdb import AnalysisBroken, where

SHRINK = ("clear", "resize", "pop_back", "erase", "assign", "swap", "shrink_to_fit")
GROW = ("push_back", "emplace_back")


def member_call(x):
    """(member, method) for `this->member.method(...)`."""
    if x.get("k") == "Call" and x.get("obj") is not None and not x.get("op"):
        m = C.member_name(x["obj"])
        if m:
            return m, x.get("n")
    return None


def rule_D7(chk, lib, cls_prefix="DensitySubGridCreator"):
    methods = [d for d in lib.decls if d["kind"] == "function" and (d.get("cls") or "").startswith(cls_prefix) and
               d.get("body") is not None and not d.get("dependent")]
    if not methods:
        methods = [d for d in lib.decls if d["kind"] == "function" and (d.get("cls") or "").startswith(cls_prefix) and
                   d.get("body") is not None]
    if not methods:
        raise AnalysisBroken("%s has no methods in the library" % cls_prefix)
    # one definition per (name, line)
    uniq = {}
    for m in methods:
        uniq.setdefault((m["name"], m.get("line")), m)
    methods = list(uniq.values())
    # 1. parallel containers
    pairs = set()
    appenders = set()
    for m in methods:
        for blk in C.walk_stmt(m["body"]):
            if blk.get("k") != "Block" or blk.get("mac"):
                continue
            grown = []
            for st in blk["s"]:
                mc = member_call(st) if st.get("k") == "Call" else None
                if mc and mc[1] in GROW and mc[0] not in grown:
                    grown.append(mc[0])
            for a in grown:
                for b in grown:
                    if a < b:
                        pairs.add((a, b))
                        appenders.add(m["name"])
    if not pairs:
        raise AnalysisBroken("%s: no pair of containers that grow together was found" % cls_prefix)
    n = 0
    for a, b in sorted(pairs):
        for m in sorted(methods, key=lambda d: (d["name"], d.get("line") or 0)):
            if m.get("ctor") or m["name"].startswith("~"):
                continue
            ops = {a: [], b: []}
            for x in C.walk_stmt(m["body"]):
                mc = member_call(x) if x.get("k") == "Call" else None
                if mc and mc[0] in ops and mc[1] in SHRINK:
                    ops[mc[0]].append(x)
                if x.get("k") in ("Bin", "Call") and x.get("op") == "=":
                    lhs = x["a"] if x.get("k") == "Bin" else x.get("obj")
                    mm = C.member_name(lhs) if lhs is not None else None
                    if mm in ops:
                        ops[mm].append(x)
            if not ops[a] and not ops[b]:
                continue
            n += 1
            # path rule: from every shrinking operation on one, a shrinking operation on the other is passed before the exit
            # or before a call that appends (a method of the class that grows them)
            g = C.CFG(m)

            def is_shrink(node, member):
                if node.ast is None or node.kind == "marker":
                    return False
                for x in C.walk(node.ast if not (node.kind == "init" and "x" in node.ast) else node.ast["x"]) \
                        if node.ast.get("k") != "Decl" else C.walk_stmt(node.ast):
                    mc = member_call(x) if x.get("k") == "Call" else None
                    if mc and mc[0] == member and mc[1] in SHRINK:
                        return True
                    if x.get("k") in ("Bin", "Call") and x.get("op") == "=":
                        lhs = x["a"] if x.get("k") == "Bin" else x.get("obj")
                        if lhs is not None and C.member_name(lhs) == member:
                            return True
                return False

            def is_append_call(node):
                if node.ast is None or node.kind == "marker" or node.ast.get("k") == "Decl":
                    return False
                for x in C.walk(node.ast if not (node.kind == "init" and "x" in node.ast) else node.ast["x"]):
                    if x.get("k") == "Call" and x.get("n") in appenders and (x.get("obj") is None or
                                                                               (C.strip_casts(x["obj"]) or {}).get("k") == "This"):
                        return True
                    mc = member_call(x) if x.get("k") == "Call" else None
                    if mc and mc[0] in (a, b) and mc[1] in GROW:
                        return True
                return False

            def tr(node, st):
                sa, sb = st
                if is_append_call(node) and sa != sb:
                    return [(None, ("bad", "bad"))]
                if st == ("bad", "bad"):
                    return [(None, st)]
                if is_shrink(node, a):
                    sa = True
                if is_shrink(node, b):
                    sb = True
                return [(None, (sa, sb))]
            ex = C.explore(g, (False, False), tr)
            finals = ex.at.get(g.exit.id, set())
            bad = [st for st in finals if st == ("bad", "bad") or st[0] != st[1]]
            which = ""
            if bad:
                st = bad[0]
                which = "appends again while only one of them was reset" if st == ("bad", "bad") else \
                    ("%s is reset but %s is not" % ((a, b) if st[0] else (b, a)))
            chk.require(not bad, "D7", "%s::%s resets %s and %s together (they grow together in %s)" %
                        (cls_prefix, m["name"], a, b, "/".join(sorted(appenders))), where(m),
                        "on some path %s: the map from copies to originals no longer lines up with the list of copies, so the fold "
                        "adds copies to the wrong original (or not at all)" % which, function=m["full"],
                        construct="parallel containers %s/%s" % (a, b))
    return n
