"""C02 - a packet crossing a subgrid deposits exactly its geometric path.

Decides the finite tables and the control / algebra skeleton of DensitySubGrid::interact that make
"enters in the right cell, leaves through the face / edge / corner really crossed, stops inside iff
the target optical depth is reached" possible (DESIGN.md C02); the floating-point ray march itself
(sum of path lengths = distance, round-off) is not decided.
 T1 exit classification: the 27 consistent exit masks map one-to-one onto the 27 directions, every other
    mask is rejected; this bijection DEFINES the geometric signature used by C03 / C10;
 T2 entry cell: per axis lower cell / upper cell / position-derived index according to the signature;
 T3 skeleton of interact: loop condition, per-axis face distances and snapping use one axis consistently,
    the surplus-path correction lands exactly on the target optical depth, the estimators are updated once
    per visited cell with the corrected length, position / optical depth written once after the loop, and
    INSIDE is returned iff the target was reached; for direction[a] == 0 the wall distance of axis a is DBL_MAX / +inf
    wherever the packet sits in the closed cell (abstract evaluation with +-inf and "may be NaN").
"""
import sympy as sp

from .. import cfg as C
from ..astdb import AnalysisBroken, where
from ..tables import Directions, switch_arms, arm_return, arm_aborts, ifchain
from ..sym import S


def zero_lit(e):
    e = C.strip_casts(e)
    if e is None:
        return False
    if e.get("k") == "Int":
        return int(e["v"]) == 0
    if e.get("k") == "Float":
        try:
            return float(e["v"]) == 0.0
        except ValueError:
            return False
    return False


def axis_subscripts(e, names):
    """All constant subscripts / loop-variable subscripts applied to the arrays `names` inside e."""
    out = []
    for x in C.walk(e):
        base = idx = None
        if x.get("k") == "Idx":
            base, idx = x["a"], x["i"]
        elif x.get("k") == "Call" and x.get("op") == "[]" and x.get("obj") is not None and x["a"]:
            base, idx = x["obj"], x["a"][0]
        if base is None:
            continue
        b = C.strip_casts(base)
        nm = b.get("n")
        if nm in names:
            i = C.const_int(idx)
            if i is None:
                ii = C.strip_casts(idx)
                i = ("var", ii.get("n")) if ii.get("k") == "Ref" else ("expr", C.pretty(ii))
            out.append((nm, i))
    return out


def entry_cell_rule(chk, u, D, rule="T2"):
    """Entry cell tables get_{x,y,z}_index against the geometric signature (shared by C02-T2 and C03-D6)."""
    n2 = 0
    for a, nm in enumerate(("get_x_index", "get_y_index", "get_z_index")):
        fn = u.func("DensitySubGrid::" + nm)
        chk.analysed(function=fn["full"])
        pid = fn["params"][1]["id"]
        xid = fn["params"][0]["id"]
        arms, els = ifchain(fn, pid)
        covered = {}
        for vals, arm in arms:
            rets = [s for s in C.walk_stmt(arm) if s.get("k") == "Return"]
            if len(rets) != 1:
                raise AnalysisBroken("%s: arm without a single return" % fn["full"])
            r = C.strip_casts(rets[0]["x"])
            kind = None
            if C.const_int(r) == 0:
                kind = "N"
            elif r.get("k") == "Bin" and r["op"] == "-" and C.const_int(r["b"]) == 1 and \
                    ("_number_of_cells", a) in axis_subscripts(r["a"], {"_number_of_cells"}):
                kind = "P"
            elif r.get("k") == "Bin" and r["op"] == "*":
                refs = {C.strip_casts(r["a"]).get("id"), C.strip_casts(r["b"]).get("id")}
                if xid in refs and ("_inv_cell_size", a) in axis_subscripts(r, {"_inv_cell_size"}):
                    kind = "."
            if kind is None:
                kind = "?" + C.pretty(r)
            for v in vals:
                covered[v] = (kind, rets[0])
        for v in D.all27():
            n2 += 1
            want = D.sig[v][a]
            got = covered.get(v, ("error arm", None))
            chk.require(got[0] == want, rule, "%s(%s) gives the %s" % (nm, D.name(v), {
                "N": "lower cell 0", "P": "upper cell n-1", ".": "position-derived index"}[want]),
                        where(got[1], fn) if got[1] else where(fn),
                        "a packet entering through %s (signature %s) starts along axis %d in '%s', expected '%s'" %
                        (D.name(v), "".join(D.sig[v]), a, got[0], want), function=fn["full"],
                        construct="%s %s" % (nm, D.name(v)))
    return n2


def run(chk, prog):
    chk.explanation = (
        "The exit-classification table, the three entry-index tables and the skeleton of the ray march are "
        "partially evaluated over all 27 travel directions / 64 exit masks and checked for mutual consistency; the "
        "geometric signature of every direction is derived from the exit code itself, no naming convention is trusted. "
        "The surplus-path correction is proved to land exactly on the target optical depth. The numeric ray march "
        "(path lengths summing to the distance, snapping, round-off) quantifies over real inputs and is not decided.")
    u = prog.umbrella
    chk.analysed(unit="umbrella")
    D = Directions(u)
    chk.analysed(function=D.fn_mask["full"])
    chk.analysed(function=D.fn_table["full"])
    # ---- T1 -------------------------------------------------------------------------------------
    n = 0
    for m in D.mask_range:
        valid = m in D.class_of_mask
        sig = D.class_of_mask.get(m, ("?", "?", "?"))
        got = D.table.get(m, D.default_value)
        n += 1
        if valid:
            bad = [p for p in D.problems if p[0] == m]
            chk.require(not bad, "T1", "exit mask %d (%s) maps to its own direction" % (m, "".join(sig)),
                        where(D.fn_table), "mask %d (signature %s) returns %s, which is %s" %
                        (m, "".join(sig), D.name(got) if got is not None else None,
                         "negative / missing" if got is None or got < 0 else "already used by another mask"),
                        function=D.fn_table["full"], construct="mask %d" % m)
        else:
            chk.require(got is not None and got < 0, "T1", "exit mask %d, which no index can produce, is rejected" % m,
                        where(D.fn_table), "a mask that the classification of an index never produces returns %s" %
                        (D.name(got) if got is not None else None), function=D.fn_table["full"],
                        construct="mask %d" % m)
    n += 1
    chk.require(len(D.sig) == 27 and set(D.sig) == set(range(D.number)), "T1",
                "the 27 consistent masks cover the 27 travel directions exactly once", where(D.fn_table),
                "directions reached: %d of %s" % (len(D.sig), D.number), function=D.fn_table["full"],
                construct="bijection")
    n += 1
    chk.require(D.sig.get(D.inside) == (".", ".", "."), "T1", "INSIDE is the direction of the empty mask",
                where(D.fn_table), "mask 0 gives %s" % D.name(D.table.get(0)), function=D.fn_table["full"],
                construct="inside")
    # an unknown mask must not be used: the caller aborts on a negative result
    gd = D.fn_mask
    guards = [s for s in C.walk_stmt(gd["body"]) if s.get("k") == "If" and not s.get("mac") and
              any(x.get("k") == "Block" and x.get("mac") in C.ABORT_MACROS for x in C.walk_stmt(s["th"]))]
    n += 1
    chk.require(len(guards) == 1, "T1", "a rejected mask aborts instead of being used as a direction", where(gd),
                "no abort guard on the classification result", function=gd["full"], construct="negative guard")
    chk.floor("T1", n, 67)
    chk.extra["signatures"] = {D.name(k): "".join(v) for k, v in sorted(D.sig.items())}

    # ---- T2 -------------------------------------------------------------------------------------
    n2 = entry_cell_rule(chk, u, D)
    chk.floor("T2", n2, 81)

    # ---- T3 -------------------------------------------------------------------------------------
    fn = u.func("DensitySubGrid::interact")
    chk.analysed(function=fn["full"])
    # loop-free value helpers of the class (a wall-distance helper extracted by a refactoring) are read in place, as one
    # conditional expression over their arguments; an array initialised by a list is read as three assignments
    vhelpers = {}
    for m_ in u.methods_of("DensitySubGrid"):
        if m_.get("body") is not None and m_ is not fn and not m_.get("ctor") and len(m_["params"]) <= 8 and \
                not any(x.get("k") in ("For", "While", "Do") for x in C.walk_stmt(m_["body"])) and \
                C.value_expr_of(m_) is not None and any(x.get("k") == "If" for x in C.walk_stmt(m_["body"])):
            vhelpers[m_["full"].split("(")[0]] = m_
    if vhelpers:
        fn = dict(fn)
        fn["body"] = C.inline_value_calls(fn["body"], vhelpers)

    def expand_array_inits(st):
        if not isinstance(st, dict):
            return st
        if st.get("k") == "Block":
            out = dict(st)
            ns = []
            for x in st.get("s", []):
                x2 = expand_array_inits(x)
                ns.append(x2)
                if x2.get("k") == "Decl":
                    for d_ in x2["d"]:
                        i_ = C.strip_casts(d_["init"]) if d_.get("init") is not None else None
                        if i_ is not None and i_.get("k") == "InitList" and len(i_.get("a", [])) == 3 and d_.get("n") == "l":
                            for k_, c_ in enumerate(i_["a"]):
                                ns.append({"k": "Bin", "op": "=", "l": c_.get("l", d_.get("l")), "t": "double",
                                           "a": {"k": "Idx", "l": d_.get("l"), "t": "double",
                                                 "a": {"k": "Ref", "n": d_["n"], "id": d_["id"], "t": d_.get("t"), "dk": "Var"},
                                                 "i": {"k": "Int", "v": str(k_), "t": "int"}},
                                           "b": c_})
            out["s"] = ns
            return out
        out = dict(st)
        for key in ("th", "el", "body", "sub"):
            if isinstance(st.get(key), dict):
                out[key] = expand_array_inits(st[key])
        return out
    fn = dict(fn)
    fn["body"] = expand_array_inits(fn["body"])
    n3 = 0
    loops = [s for s in fn["body"]["s"] if s.get("k") == "While"]
    if len(loops) != 1:
        raise AnalysisBroken("interact: expected one top-level while loop")
    lp = loops[0]
    decls = {}
    for s in C.walk_stmt(fn["body"]):
        if s.get("k") == "Decl":
            for d in s["d"]:
                decls[d["n"]] = d
    # loop condition: tau_done < tau_target && is_inside(three_index)
    conj = []

    def cj(e):
        e = C.strip_casts(e)
        if e.get("k") == "Bin" and e["op"] == "&&":
            cj(e["a"])
            cj(e["b"])
        else:
            conj.append(e)
    cj(lp["c"])
    cmp_ = [c for c in conj if c.get("k") == "Bin" and c["op"] == "<"]
    ins = [c for c in conj if C.is_call(c, name="is_inside")]
    n3 += 1
    okc = len(conj) == 2 and len(cmp_) == 1 and len(ins) == 1
    done_key = C.ref_key(cmp_[0]["a"]) if okc else None
    target_key = C.ref_key(cmp_[0]["b"]) if okc else None
    chk.require(okc, "T3", "the march continues while the target depth is not reached and the index is inside",
                where(lp, fn), "loop condition is %s" % C.pretty(lp["c"]), function=fn["full"],
                construct="loop condition")
    if not okc:
        return
    # per-axis face distance: d>0 uses the upper face, d<0 the lower face, all subscripts the same
    body = lp["body"]
    arrays = {"cell_low", "cell_high", "position", "inverse_direction", "direction", "l", "three_index",
              "_cell_size"}
    for s in C.walk_stmt(body):
        if s.get("k") == "Bin" and s["op"] in ("=", "+=") or (s.get("k") == "Decl"):
            exprs = [s] if s.get("k") == "Bin" else [d["init"] for d in s["d"] if d.get("init")]
            for e in exprs:
                # split initialiser lists / constructor argument lists into their per-axis components
                comps = []
                ee = C.strip_casts(e)
                if ee.get("k") == "InitList":
                    comps = ee["a"]
                else:
                    comps = [ee]
                for cpt in comps:
                    subs = axis_subscripts(cpt, arrays)
                    axes = {i for _, i in subs}
                    cc = C.strip_casts(cpt)
                    per_axis = ee.get("k") == "InitList" or (cc.get("k") == "Bin" and
                                                             bool(axis_subscripts(cc["a"], arrays)))
                    if len(subs) >= 2 and per_axis:
                        n3 += 1
                        chk.require(len(axes) == 1, "T3", "line %s: one axis per component in `%s`" %
                                    (cpt.get("l") or s.get("l"), C.pretty(cpt)[:70]), where(cpt if "l" in cpt else s, fn),
                                    "the expression mixes axes %s: %s" % (sorted(map(str, axes)), C.pretty(cpt)[:120]),
                                    function=fn["full"], construct="axis consistency line-free %s" %
                                    C.pretty(cpt)[:40])
    # ---- per-axis case evaluation -------------------------------------------------------------------------
    # The face distance, the snap and the index step are decided semantically: for every axis a and both signs of
    # direction[a] the right-hand sides are resolved through const locals, const arrays and conditional
    # expressions to the array they finally read (cell_high / cell_low) or to the literal step.
    ifs = [s for s in C.walk_stmt(body) if s.get("k") == "If"]
    consts = {}          # id -> init expr (const locals, const arrays with an initialiser list)
    for st0 in C.walk_stmt(fn["body"]):
        if st0.get("k") == "Decl":
            for d in st0["d"]:
                if d.get("init") is not None and (d.get("t") or "").startswith("const "):
                    consts[d["id"]] = C.strip_casts(d["init"])

    def sub_axis(idx, a, lv):
        """Does subscript expression idx denote axis a (literal a, or the loop variable bound to a)?"""
        ci = C.const_int(idx)
        if ci is not None:
            return ci == a
        ii = C.strip_casts(idx)
        return ii.get("k") == "Ref" and ii.get("n") in lv

    def elem(e):
        e = C.strip_casts(e)
        if e.get("k") == "Idx":
            return C.strip_casts(e["a"]), e["i"]
        if e.get("k") == "Call" and e.get("op") == "[]" and e.get("obj") is not None and e["a"]:
            return C.strip_casts(e["obj"]), e["a"][0]
        return None, None

    def ev_bool(e, a, sign, lv, depth=0):
        """Truth of e for direction[a] of the given sign ('+' / '-'); None if it does not depend on that only."""
        e = C.strip_casts(e)
        if depth > 8:
            return None
        k2 = e.get("k")
        if k2 == "Bin" and e["op"] in (">", "<", ">=", "<=", "==", "!=") and zero_lit(e["b"]):
            base, idx = elem(e["a"])
            if base is not None and base.get("n") == "direction" and sub_axis(idx, a, lv):
                val = {"+": 1, "-": -1, "0": 0}[sign]
                return {">": val > 0, "<": val < 0, ">=": val >= 0, "<=": val <= 0, "==": val == 0, "!=": val != 0}[e["op"]]
            return None
        if k2 == "Bin" and e["op"] in ("||", "&&"):
            x, y = ev_bool(e["a"], a, sign, lv, depth + 1), ev_bool(e["b"], a, sign, lv, depth + 1)
            if e["op"] == "||":
                return True if (x is True or y is True) else (False if (x is False and y is False) else None)
            return False if (x is False or y is False) else (True if (x is True and y is True) else None)
        if k2 == "Un" and e["op"] == "!":
            x = ev_bool(e["x"], a, sign, lv, depth + 1)
            return None if x is None else (not x)
        if k2 == "Ref" and e.get("id") in consts:
            return ev_bool(consts[e["id"]], a, sign, lv, depth + 1)
        base, idx = elem(e)
        if base is not None and base.get("k") == "Ref" and base.get("id") in consts and sub_axis(idx, a, lv):
            init = consts[base["id"]]
            if init.get("k") == "InitList" and len(init["a"]) == 3:
                return ev_bool(init["a"][a], a, sign, set(), depth + 1)
        return None

    def resolve(e, a, sign, lv, depth=0):
        """Leaf that e denotes for axis a and the given sign: ('arr', name) / ('int', v) / ('expr', ast)."""
        e = C.strip_casts(e)
        if depth > 8:
            return ("expr", e)
        ci = C.const_int(e)
        if ci is not None:
            return ("int", ci)
        if e.get("k") == "Un" and e.get("op") == "-" and C.const_int(e["x"]) is not None:
            return ("int", -C.const_int(e["x"]))
        if e.get("k") == "Cond":
            c = ev_bool(e["c"], a, sign, lv, depth + 1)
            if c is None:
                return ("expr", e)
            return resolve(e["a"] if c else e["b"], a, sign, lv, depth + 1)
        if e.get("k") == "Ref" and e.get("id") in consts:
            return resolve(consts[e["id"]], a, sign, lv, depth + 1)
        base, idx = elem(e)
        if base is not None and sub_axis(idx, a, lv):
            if base.get("n") in ("cell_high", "cell_low", "position"):
                return ("arr", base["n"])
            if base.get("k") == "Ref" and base.get("id") in consts:
                init = consts[base["id"]]
                if init.get("k") == "InitList" and len(init["a"]) == 3:
                    return resolve(init["a"][a], a, sign, set(), depth + 1)
        return ("expr", e)

    def walls_in(e, a, sign, lv):
        """The set of wall arrays the value of e reads for axis a under the sign case."""
        out = set()

        def rec(x):
            x = C.strip_casts(x)
            r = resolve(x, a, sign, lv)
            if r[0] == "arr":
                if r[1] in ("cell_high", "cell_low"):
                    out.add(r[1])
                return
            if r[0] == "int":
                return
            x2 = r[1]
            if x2.get("k") == "Cond":
                out.add("?")
                return
            for ch in C.children_of(x2):
                rec(ch)
        rec(e)
        return out

    def stack_iter(st, stack):
        yield st, stack
        k2 = st.get("k")
        if k2 == "Block":
            for c2 in st.get("s", []):
                yield from stack_iter(c2, stack)
        elif k2 == "If":
            if st.get("th") is not None:
                yield from stack_iter(st["th"], stack + [("if", st, True)])
            if st.get("el") is not None:
                yield from stack_iter(st["el"], stack + [("if", st, False)])
        elif k2 in ("For", "While", "Do"):
            if st.get("body") is not None:
                yield from stack_iter(st["body"], stack + [("loop", st, None)])

    def loop_vars(stack):
        lv = set()
        for kind, st, _ in stack:
            if kind == "loop" and st.get("k") == "For" and st.get("init") and st["init"].get("k") == "Decl":
                d0 = st["init"]["d"][0]
                cc = C.strip_casts(st.get("c"))
                if C.const_int(d0.get("init")) == 0 and cc is not None and cc.get("k") == "Bin" and cc["op"] == "<" and \
                        C.const_int(cc["b"]) == 3:
                    lv.add(d0["n"])
        return lv

    def reachable_under(stack, a, sign, lv):
        """False if an enclosing `if` excludes this sign case; the tie test l[a] == lmin counts as satisfiable."""
        for kind, st, arm in stack:
            if kind != "if":
                continue
            v = ev_bool(st["c"], a, sign, lv)
            if v is not None and v != arm:
                return False
        return True

    face_rules = 0
    seen_face = seen_snap = seen_step = 0
    for x, stack in stack_iter(body, []):
        if x.get("k") != "Bin" or x["op"] not in ("=", "+="):
            continue
        tb, ti = elem(x["a"])
        if tb is None or tb.get("n") not in ("l", "position", "three_index"):
            continue
        lv = loop_vars(stack)
        rhs = x["b"]
        for a in (0, 1, 2):
            if not sub_axis(ti, a, lv):
                continue
            for sign in ("+", "-"):
                if not reachable_under(stack, a, sign, lv):
                    continue
                want = "cell_high" if sign == "+" else "cell_low"
                if tb["n"] == "l" and x["op"] == "=":
                    if C.strip_casts(rhs).get("k") in ("Float",) or (C.strip_casts(rhs).get("k") == "Ref" and
                                                                    C.strip_casts(rhs).get("mac") == "DBL_MAX"):
                        continue
                    used = walls_in(rhs, a, sign, lv)
                    if not used:
                        continue       # not a wall distance (e.g. DBL_MAX)
                    n3 += 1
                    face_rules += 1
                    seen_face += 1
                    chk.require(used == {want}, "T3", "axis %d, direction %s 0: the distance is measured to the %s face" %
                                (a, ">" if sign == "+" else "<", "upper" if sign == "+" else "lower"), where(x, fn),
                                "for direction %s 0 along axis %d the distance `%s` reads %s" %
                                (">" if sign == "+" else "<", a, C.pretty(rhs)[:90], sorted(used)), function=fn["full"],
                                construct="face for direction %s 0" % (">" if sign == "+" else "<"))
                elif tb["n"] == "position" and x["op"] == "=":
                    # the arm taken when the wall of axis a is hit: under `l[a] == lmin` (if / conditional expression)
                    r = C.strip_casts(rhs)
                    tie_arm = None
                    if r.get("k") == "Cond" and "lmin" in C.pretty(r["c"]):
                        tie_arm = r["a"]
                    elif any(kind == "if" and arm and "lmin" in C.pretty(st["c"]) for kind, st, arm in stack):
                        tie_arm = rhs
                    if tie_arm is None:
                        continue
                    used = walls_in(tie_arm, a, sign, lv)
                    n3 += 1
                    face_rules += 1
                    seen_snap += 1
                    chk.require(used == {want}, "T3", "axis %d, direction %s 0: the position snaps to the %s face that was "
                                "crossed" % (a, ">" if sign == "+" else "<", "upper" if sign == "+" else "lower"),
                                where(x, fn), "on a wall hit the position becomes `%s`, which reads %s" %
                                (C.pretty(tie_arm)[:90], sorted(used)), function=fn["full"], construct="snap axis")
                elif tb["n"] == "three_index" and x["op"] == "+=":
                    r = resolve(rhs, a, sign, lv)
                    n3 += 1
                    face_rules += 1
                    seen_step += 1
                    chk.require(r == ("int", 1 if sign == "+" else -1), "T3", "axis %d, direction %s 0: the cell index steps "
                                "%+d" % (a, ">" if sign == "+" else "<", 1 if sign == "+" else -1), where(x, fn),
                                "index step `%s` evaluates to %s" % (C.pretty(rhs)[:80], r if r[0] == "int" else
                                                                     "an expression the case analysis cannot reduce"),
                                function=fn["full"], construct="index step")
    # ---- T3 (axis-aligned packets): for direction[a] == 0 the wall distance of axis a is never the minimum and never NaN --
    # abstract evaluation over {zero, pos, nonneg, fin, inf, max, nan?} of the value stored in l[a] in the case
    # direction[a] == 0, the packet anywhere in the closed cell (on a face included: position - cell_low may be exactly 0)
    def xeval(e, a, lv, depth=0):
        e = C.strip_casts(e)
        if depth > 10:
            return "?"
        k2 = e.get("k")
        if k2 == "Float" or k2 == "Int":
            if e.get("mac") == "DBL_MAX":
                return "max"
            try:
                v = float(str(e.get("sp", e["v"])).rstrip("fFlL"))
            except ValueError:
                return "?"
            return "zero" if v == 0 else ("max" if v >= 1e300 else ("pos" if v > 0 else "fin"))
        if k2 == "Ref" and e.get("mac") == "DBL_MAX":
            return "max"
        if k2 == "Cond":
            c = ev_bool(e["c"], a, "0", lv, depth + 1)
            if c is None:
                x, y = xeval(e["a"], a, lv, depth + 1), xeval(e["b"], a, lv, depth + 1)
                return x if x == y else "?"
            return xeval(e["a"] if c else e["b"], a, lv, depth + 1)
        if k2 == "Ref" and e.get("id") in consts:
            return xeval(consts[e["id"]], a, lv, depth + 1)
        if k2 == "Call" and (e.get("fn") or e.get("n") or "").split("::")[-1] in ("abs", "fabs") and len(e["a"]) == 1:
            x = xeval(e["a"][0], a, lv, depth + 1)
            return {"fin": "nonneg", "-inf": "inf"}.get(x, x)
        if k2 == "Call" and (e.get("n") in ("infinity", "max") and "numeric_limits" in (e.get("fn") or "")):
            return "inf" if e["n"] == "infinity" else "max"
        base, idx = elem(e)
        if base is not None and sub_axis(idx, a, lv):
            if base.get("n") == "direction":
                return "zero"
            if base.get("n") in ("cell_high", "cell_low", "position"):
                return "fin"
            if base.get("k") == "Ref" and base.get("id") in consts:
                init = consts[base["id"]]
                while init.get("k") == "Ctor" and len(init.get("a", [])) == 1:
                    init = C.strip_casts(init["a"][0])
                if init.get("k") in ("InitList", "Ctor") and len(init.get("a", [])) == 3:
                    return xeval(init["a"][a], a, set(), depth + 1)
                if init.get("k") == "Call" and init.get("op") in ("/", "*", "+", "-"):
                    # a vector expression applied component by component
                    args = ([init["obj"]] if init.get("obj") is not None else []) + list(init["a"])
                    if len(args) == 2:
                        def comp(x):
                            x0 = C.strip_casts(x)
                            if x0.get("k") == "Ref" and x0.get("n") == "direction":
                                return "zero"
                            return xeval(x0, a, set(), depth + 1)
                        return combine(init["op"], comp(args[0]), comp(args[1]))
            return "?"
        if k2 == "Bin" and e["op"] in ("+", "-", "*", "/"):
            # differences of positions within the closed cell
            if e["op"] == "-":
                ra, rb = resolve(e["a"], a, "0", lv), resolve(e["b"], a, "0", lv)
                if ra[0] == "arr" and rb[0] == "arr" and (ra[1], rb[1]) in (("cell_high", "position"), ("position", "cell_low"),
                                                                          ("cell_high", "cell_low")):
                    return "nonneg"
                if ra[0] == "arr" and rb[0] == "arr" and (ra[1], rb[1]) in (("cell_low", "position"), ("position", "cell_high")):
                    return "nonpos"
            return combine(e["op"], xeval(e["a"], a, lv, depth + 1), xeval(e["b"], a, lv, depth + 1))
        if k2 == "Un" and e.get("op") == "-":
            x = xeval(e["x"], a, lv, depth + 1)
            return {"inf": "-inf", "-inf": "inf", "nonneg": "nonpos", "nonpos": "nonneg", "zero": "zero", "pos": "fin",
                    "max": "fin"}.get(x, x)
        return "?"

    def combine(op, x, y):
        if "?" in (x, y):
            return "?"
        if "nan?" in (x, y):
            return "nan?"
        infs = ("inf", "-inf")
        if op == "/":
            if y == "zero":
                return "nan?" if x in ("zero", "nonneg", "nonpos", "fin") else ("inf" if x in ("pos", "max") else "nan?")
            if y in infs:
                return "nan?" if x in infs else "zero"
            return "nan?" if False else ("inf" if x == "inf" else ("-inf" if x == "-inf" else "fin"))
        if op == "*":
            if x in infs or y in infs:
                other = y if x in infs else x
                if other in ("zero", "nonneg", "nonpos", "fin"):
                    return "nan?"            # 0 * inf
                if other in ("pos", "max"):
                    return x if x in infs else y
                if other in infs:
                    return "inf" if x == y else "-inf"
            if "zero" in (x, y):
                return "zero"
            if x in ("pos", "max") and y in ("pos", "max"):
                return "pos"
            if x in ("pos", "max", "nonneg") and y in ("pos", "max", "nonneg"):
                return "nonneg"
            return "fin"
        if op in ("+", "-"):
            if x in infs and y in infs:
                return x if (x == y) == (op == "+") else "nan?"
            if x in infs:
                return x
            if y in infs:
                return y if op == "+" else {"inf": "-inf", "-inf": "inf"}[y]
            return "fin"
        return "?"

    nz = 0
    for x, stack in stack_iter(body, []):
        if x.get("k") != "Bin" or x["op"] != "=":
            continue
        tb, ti = elem(x["a"])
        if tb is None or tb.get("n") != "l":
            continue
        lv = loop_vars(stack)
        for a in (0, 1, 2):
            if not sub_axis(ti, a, lv) or not reachable_under(stack, a, "0", lv):
                continue
            cls = xeval(x["b"], a, lv)
            if cls == "?":
                raise AnalysisBroken("DensitySubGrid::interact: the wall distance `%s` cannot be evaluated for a vanishing "
                                     "direction component" % C.pretty(x["b"])[:80])
            nz += 1
            n3 += 1
            chk.require(cls in ("max", "inf"), "T3", "axis %d, direction == 0: the wall distance is never the minimum" % a,
                        where(x, fn), "for a packet that does not move along axis %d the distance `%s` evaluates to %s: %s" %
                        (a, C.pretty(x["b"])[:80], {"nan?": "NaN when the packet sits exactly on a cell face (0 x infinity)"}.get(cls, cls),
                         "std::min / == comparisons with NaN make the step length, the path credited to the cell and the exit face "
                         "wrong" if cls == "nan?" else "a finite distance of an axis the packet does not move along can become the "
                         "step length"), function=fn["full"], construct="wall distance for direction == 0")
    chk.floor("T3 zero direction", nz, 3)
    recognised = (seen_face >= 6 and seen_snap >= 6 and seen_step >= 6)
    # ties: EVERY axis whose wall distance equals the minimum is stepped (a packet leaving exactly through an edge or a
    # corner must be classified as such): each index step sits under `l[a] == lmin` for its own axis a, and the three axes
    # are all covered (a loop over 0..2 or three statements)
    def with_stack(st, stack):
        yield st, stack
        k2 = st.get("k")
        if k2 == "Block":
            for c2 in st.get("s", []):
                yield from with_stack(c2, stack)
        elif k2 == "If":
            for key2 in ("th", "el"):
                if st.get(key2) is not None:
                    yield from with_stack(st[key2], stack + [(st, key2)])
        elif k2 in ("For", "While", "Do"):
            if st.get("body") is not None:
                yield from with_stack(st["body"], stack + [(st, "body")])
    steps = []
    for x, stack in with_stack(body, []):
        if x.get("k") == "Bin" and x["op"] == "+=" and axis_subscripts(x["a"], {"three_index"}):
            steps.append((x, stack))
    covered = set()
    tie_ok = bool(steps)
    tie_detail = "no index step found"
    for x, stack in steps:
        sub = C.strip_casts(C.strip_casts(x["a"]).get("i") or (C.strip_casts(x["a"]).get("a") or [None])[0])
        guard = [st for st, arm in stack if st.get("k") == "If" and arm == "th"]
        g_ok = False
        for st in guard:
            cnd = C.strip_casts(st["c"])
            if cnd.get("k") == "Bin" and cnd["op"] == "==":
                sides = [C.strip_casts(cnd["a"]), C.strip_casts(cnd["b"])]
                for a1, b1 in (sides, sides[::-1]):
                    isub = C.strip_casts(a1.get("i")) if a1.get("k") == "Idx" else None
                    if isub is not None and C.ref_key(a1.get("a")) == ("local", decls["l"]["id"], "l") if "l" in decls else False:
                        if C.pretty(isub) == C.pretty(sub) and C.ref_key(b1) == ("local", decls["lmin"]["id"], "lmin"):
                            g_ok = True
        if not g_ok:
            tie_ok = False
            tie_detail = "the index step at line %s is not guarded by `l[a] == lmin` for its own axis" % x.get("l")
        ci = C.const_int(sub) if sub is not None else None
        if ci is not None:
            covered.add(ci)
        else:
            for st, arm in stack:
                if st.get("k") == "For" and st.get("init") and st["init"].get("k") == "Decl" and \
                        C.ref_key(sub) == ("local", st["init"]["d"][0]["id"], st["init"]["d"][0]["n"]):
                    c0 = C.const_int(st["init"]["d"][0].get("init"))
                    cc = C.strip_casts(st.get("c"))
                    c1 = C.const_int(cc["b"]) if cc is not None and cc.get("k") == "Bin" and cc["op"] == "<" else None
                    if c0 == 0 and c1 == 3:
                        covered |= {0, 1, 2}
    if tie_ok and covered != {0, 1, 2}:
        tie_ok = False
        tie_detail = "index steps cover the axes %s only: a tie between two wall distances moves the packet along one axis " \
                     "and an exit through an edge or corner is reported as a face" % sorted(covered)
    n3 += 1
    chk.require(tie_ok, "T3", "every axis whose wall distance equals the minimum is stepped (edge and corner crossings)",
                where(steps[0][0], fn) if steps else where(fn), tie_detail, function=fn["full"], construct="tie handling")
    if tie_ok and not recognised:
        raise AnalysisBroken("interact: wall distance / snap / index step not recognised for all axes and signs "
                             "(%d, %d, %d of 6 each)" % (seen_face, seen_snap, seen_step))
    # surplus correction: after it, the optical depth used equals the target
    td0, tau, tt, lmin = S("tau_done0"), S("tau"), S("tau_target"), S("lmin")
    corr_ifs = [s for s in ifs if C.strip_casts(s["c"]).get("k") == "Bin" and C.strip_casts(s["c"])["op"] == ">=" and
                C.ref_key(C.strip_casts(s["c"])["a"]) == done_key and C.ref_key(C.strip_casts(s["c"])["b"]) == target_key]
    n3 += 1
    okk = len(corr_ifs) == 1
    detail = "no `if (tau_done >= tau_target)` inside the loop"
    if okk:
        s = corr_ifs[0]
        from ..sym import Converter, Env
        conv = Converter()
        env = Env()
        # names -> symbols
        for nm, sym in (("tau_done", td0 + tau), ("tau", tau), ("tau_target", tt), ("lmin", lmin)):
            if nm in decls:
                env.vals[("l", decls[nm]["id"])] = sym
        newl = None
        for x in C.walk_stmt(s["th"]):
            if x.get("k") == "Decl":
                for d in x["d"]:
                    if d.get("init") is not None:
                        env.vals[("l", d["id"])] = conv.conv(d["init"], env)
            if x.get("k") == "Bin" and x["op"] in ("*=", "=") and C.ref_key(x["a"]) == ("local", decls["lmin"]["id"], "lmin"):
                newl = env.vals[("l", decls["lmin"]["id"])] * conv.conv(x["b"], env) if x["op"] == "*=" else \
                    conv.conv(x["b"], env)
        if newl is None:
            okk = False
            detail = "the surplus branch does not shorten the path length"
        else:
            # optical depth is linear in the path: used = tau * newl / lmin
            resid = sp.simplify(td0 + tau * newl / lmin - tt)
            okk = resid == 0
            detail = "after the correction the optical depth used differs from the target by %s" % resid
    chk.require(okk, "T3", "the surplus-path correction lands exactly on the target optical depth", where(lp, fn),
                detail, function=fn["full"], construct="surplus correction")
    # estimator update: exactly once per iteration, after the correction, with the variable that moves the packet
    g = C.CFG(fn, body=body, name="interact loop body")
    upd = [nd for nd in g.nodes if nd.kind == "stmt" and C.is_call(C.strip_casts(nd.ast), name="update_intensity_counters")]
    n3 += 1
    okk = len(upd) == 1 and g.all_paths_pass(g.entry.id, {upd[0].id})
    corr_nodes = [nd for nd in g.nodes if nd.kind == "stmt" and nd.ast.get("k") == "Bin" and nd.ast["op"] in ("*=",) and
                  C.ref_key(nd.ast["a"]) == ("local", decls["lmin"]["id"], "lmin")]
    after_corr = all(upd and upd[0].id in g.reachable(cn.id) and cn.id not in g.reachable(upd[0].id) for cn in corr_nodes)
    lvar = C.ref_key(C.strip_casts(upd[0].ast)["a"][1]) if upd else None
    chk.require(okk and after_corr and lvar == ("local", decls["lmin"]["id"], "lmin"), "T3",
                "each visited cell is credited exactly once, with the corrected path length", where(lp, fn),
                "update_intensity_counters: %d call(s), on every path: %s, after the correction: %s, length argument %s"
                % (len(upd), okk, after_corr, lvar), function=fn["full"], construct="estimator update")
    # after the loop: remaining optical depth and position written once; INSIDE iff target reached
    tail = fn["body"]["s"][fn["body"]["s"].index(lp) + 1:]
    setd = [x for s in tail for x in C.walk_stmt(s) if C.is_call(x, name="set_target_optical_depth")]
    setp = [x for s in tail for x in C.walk_stmt(s) if C.is_call(x, name="set_position")]
    n3 += 1
    okk = len(setd) == 1 and len(setp) == 1
    if okk:
        a = C.strip_casts(setd[0]["a"][0])
        okk = a.get("k") == "Bin" and a["op"] == "-" and C.ref_key(a["a"]) == target_key and C.ref_key(a["b"]) == done_key
    chk.require(okk, "T3", "the remaining optical depth (target - done) and the position are written once after the march",
                where(fn), "set_target_optical_depth x%d, set_position x%d" % (len(setd), len(setp)),
                function=fn["full"], construct="final writes")
    rets = [s for s in tail if s.get("k") == "Return"]
    final_if = [s for s in tail if s.get("k") == "If" and C.strip_casts(s["c"]).get("k") == "Bin" and
                C.strip_casts(s["c"])["op"] == ">=" and C.ref_key(C.strip_casts(s["c"])["a"]) == done_key]
    n3 += 1
    okk = len(rets) == 1 and len(final_if) == 1
    if okk:
        th = [x for x in C.walk_stmt(final_if[0]["th"]) if x.get("k") == "Bin" and x["op"] == "="]
        el = [x for x in C.walk_stmt(final_if[0]["el"]) if x.get("k") == "Bin" and x["op"] == "="] \
            if final_if[0].get("el") else []
        okk = len(th) == 1 and len(el) == 1 and C.const_int(th[0]["b"]) == D.inside and \
            C.is_call(C.strip_casts(el[0]["b"]), name="get_output_direction") and \
            C.ref_key(th[0]["a"]) == C.ref_key(rets[0]["x"]) == C.ref_key(el[0]["a"])
    elif len(rets) == 1:
        # the same decision as a conditional expression: r = (done >= target) ? INSIDE : get_output_direction(index)
        ce = None
        rx = C.strip_casts(rets[0]["x"])
        if rx.get("k") == "Cond":
            ce = rx
        else:
            for s2 in tail:
                if s2.get("k") == "Decl":
                    for d in s2["d"]:
                        if ("local", d["id"], d["n"]) == C.ref_key(rx) and d.get("init") is not None and \
                                C.strip_casts(d["init"]).get("k") == "Cond":
                            ce = C.strip_casts(d["init"])
        if ce is not None:
            cc = C.strip_casts(ce["c"])
            okk = cc.get("k") == "Bin" and cc["op"] == ">=" and C.ref_key(cc["a"]) == done_key and \
                C.ref_key(cc["b"]) == target_key and C.const_int(ce["a"]) == D.inside and \
                C.is_call(C.strip_casts(ce["b"]), name="get_output_direction")
    chk.require(okk, "T3", "INSIDE is returned iff the target optical depth was reached, else the classified exit",
                where(fn), "the final classification is not `tau_done >= tau_target ? INSIDE : get_output_direction(index)`",
                function=fn["full"], construct="final classification")
    chk.floor("T3", n3, 20)
    # ---- T4: every estimator grows by weight x cross section x path length (c02_factors.py) -------------------------
    from . import c02_factors
    n4 = c02_factors.rule_T4(chk, u)
    chk.floor("T4", n4, 2)
