"""C06-P5: the electron density handed to the metal balance is never exactly zero.

compute_ionization_states_metals divides by `ne * alpha` (two purely radiative stage ratios) and the thermal balance by
sqrt(ne).  Its callers compute ne from the hydrogen and helium neutral fractions that the H/He solver returns through
reference parameters.  A small interprocedural constant propagation:

  * the solver is summarised by the *literal* outputs it can produce (paths on which every output parameter is assigned a
    literal, e.g. the weak-field shortcut `h0 = 1.; he0 = 1.; return;`), each with the condition under which the path is
    taken;
  * at every call site of the metal balance the expression of ne is evaluated with each such literal output;
  * a path on which ne evaluates to exactly 0 - and whose condition is not excluded by a guard that dominates the call in
    the caller - is a division 0/0 or x/0 in the metal balance: reported.

Whether ne can be *numerically* zero on the iterated paths is a question about run-time values and is not decided.
"""
import sympy as sp

from .. import cfg as C
from ..astdb import AnalysisBroken, where
from ..sym import Converter, Env


def literal_output_paths(fn):
    """[(conditions as (pretty, polarity), {param index: literal value})] for paths of fn that assign literals to all of its
    non-const reference parameters and return."""
    outs = [i for i, p in enumerate(fn["params"]) if (p.get("t") or "").rstrip().endswith("&") and
            "const" not in (p.get("t") or "")]
    ids = {fn["params"][i]["id"]: i for i in outs}
    res = []

    def run(stmts, vals, conds):
        for i, st in enumerate(stmts):
            k = st.get("k")
            if k == "Block":
                if st.get("mac"):
                    continue
                return run(st["s"] + stmts[i + 1:], vals, conds)
            if k == "Bin" and st.get("op") == "=":
                a = C.strip_casts(st["a"])
                if a.get("k") == "Ref" and a.get("id") in ids:
                    b = C.strip_casts(st["b"])
                    vals = dict(vals)
                    if b.get("k") in ("Float", "Int"):
                        vals[ids[a["id"]]] = sp.Rational(str(b.get("sp", b["v"])).rstrip("fFlL")) if b.get("k") == "Float" \
                            else sp.Integer(int(b["v"]))
                    else:
                        vals.pop(ids[a["id"]], None)
                        vals[("nonlit", ids[a["id"]])] = True
            elif k == "If":
                run([st["th"]] + stmts[i + 1:], vals, conds + [(C.pretty(st["c"]), True, st["c"])])
                run(([st["el"]] if st.get("el") is not None else []) + stmts[i + 1:], vals,
                    conds + [(C.pretty(st["c"]), False, st["c"])])
                return
            elif k == "Return":
                lit = {o: vals[o] for o in outs if o in vals}
                if len(lit) == len(outs) and outs:
                    res.append((conds, lit))
                return
            elif k in ("While", "For", "Do", "Switch"):
                return      # beyond the first loop the outputs are iterated values
        return
    run(fn["body"]["s"], {}, [])
    return res


# Call sites whose metal fractions are the *output* of the computation (confirmed by reading).  The thermal balance calls the
# metal balance inside its iteration and resets the fractions in a final sanity step: a zero electron density there gives a
# wrong temperature (the 30000 K cap) but no non-finite output, which C06 does not forbid; it is described in DESIGN.md.
OUTPUT_CALLERS = ("IonizationStateCalculator::calculate_ionization_state",)


def rule_P5(chk, lib):
    metals = [d for d in lib.decls if d["kind"] == "function" and d.get("body") is not None and
              d["full"].split("(")[0] == "IonizationStateCalculator::compute_ionization_states_metals"]
    if not metals:
        raise AnalysisBroken("compute_ionization_states_metals not found")
    ne_index = [i for i, p in enumerate(metals[0]["params"]) if p["n"] == "ne"]
    if len(ne_index) != 1:
        # positional fallback: the first scalar double parameter
        ne_index = [i for i, p in enumerate(metals[0]["params"]) if (p.get("t") or "").replace("const ", "").strip() == "double"][:1]
    ne_index = ne_index[0]
    by_name = {}
    for d in lib.decls:
        if d["kind"] == "function" and d.get("body") is not None:
            by_name.setdefault(d["full"].split("(")[0], []).append(d)
    n = 0
    seen = set()
    for caller in lib.decls:
        if caller["kind"] != "function" or caller.get("body") is None or caller.get("dependent"):
            continue
        calls = [x for x in C.walk_stmt(caller["body"]) if x.get("k") == "Call" and
                 (x.get("fn") or "") == "IonizationStateCalculator::compute_ionization_states_metals"]
        if not calls or (caller["full"], caller.get("line")) in seen:
            continue
        if caller["full"].split("(")[0] not in OUTPUT_CALLERS:
            continue
        seen.add((caller["full"], caller.get("line")))
        chk.analysed(function=caller["full"])
        defs = {}
        for st in C.walk_stmt(caller["body"]):
            if st.get("k") == "Decl":
                for d in st["d"]:
                    if d.get("init") is not None:
                        defs[d["id"]] = d["init"]
        # solver calls that set locals through reference parameters
        solver_calls = []
        for x in C.walk_stmt(caller["body"]):
            if x.get("k") == "Call" and x.get("fn") and x["fn"] in by_name and x["fn"] != calls[0]["fn"]:
                callee = by_name[x["fn"]][0]
                lits = literal_output_paths(callee)
                if lits:
                    solver_calls.append((x, callee, lits))
        for call in calls:
            ne_arg = C.strip_casts(call["a"][ne_index])
            zero_paths = []
            for sx, callee, lits in solver_calls:
                if sx.get("l", 0) > call.get("l", 0):
                    continue
                for conds, lit in lits:
                    env = Env()
                    bound = {}
                    for pi, val in lit.items():
                        a = C.strip_casts(sx["a"][pi])
                        if a.get("k") == "Ref" and "id" in a:
                            bound[a["id"]] = val

                    def atoms(key, e, bound=bound):
                        e0 = C.strip_casts(e)
                        if e0.get("k") == "Ref" and e0.get("id") in bound:
                            return bound[e0["id"]]
                        if e0.get("k") == "Ref" and e0.get("id") in defs:
                            try:
                                return conv.conv(defs[e0["id"]], Env())
                            except AnalysisBroken:
                                return None
                        return None
                    conv = Converter(atoms=atoms, positive_atoms=True)
                    try:
                        v = sp.simplify(conv.conv(ne_arg, env))
                    except AnalysisBroken:
                        continue
                    pm = {p["n"]: C.pretty(a) for p, a in zip(callee["params"], sx["a"])}
                    ctext = []
                    for txt, pol, node in conds:
                        t2 = txt
                        for pn, an in pm.items():
                            t2 = t2.replace(pn, an) if pn != an else t2
                        ctext.append(("" if pol else "not ") + t2)
                    n += 1
                    lits_txt = ", ".join("%s = %s" % (callee["params"][i_]["n"], v_) for i_, v_ in sorted(lit.items()))
                    chk.require(v != 0, "P5", "%s: with the literal outputs of %s on its path [%s] (%s) the electron density given to the "
                                "metal balance is not exactly zero" % (caller["full"].split("(")[0], callee["name"], "; ".join(ctext),
                                                                       lits_txt), where(call, caller),
                                "`%s` is exactly 0 on that path: the metal balance then divides by ne * alpha (0/0 where the metal's "
                                "ionization integral is 0 as well), and the stored fractions are NaN" %
                                C.pretty(defs.get(ne_arg.get("id"), ne_arg))[:70], function=caller["full"].split("(")[0],
                                construct="ne exactly zero via %s [%s]" % (callee["name"], "; ".join(ctext)))
    return n
