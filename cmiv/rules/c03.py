"""C03 - ray tracing does not depend on how the grid is split into subgrids.

Decides the self-consistency of the hand-over bookkeeping tables and of the copy-folding field sets
(DESIGN.md C03), with the geometric signature of the directions taken from C02-T1:
 D1 output_to_input_direction maps every direction to the geometrically opposite one (an involution);
 D2 the direction/velocity compatibility tables are exactly the sign pattern of the signature, the input
    table is the output table of the opposite direction;
 D3 update_photon_position snaps exactly the coordinates fixed by the entry classification;
 D6 the cell in which an entering packet starts (get_x/y/z_index) lies on the side fixed by the entry classification,
    i.e. it agrees with the coordinates D3 snaps (a packet placed on a face starts in the cell layer touching it);
 D4 what leaves through direction i is tagged with neighbour(i) and enters through the opposite of i, the
    thread-local buffers are indexed by the direction returned by the traversal;
 D5 the estimator fields accumulated by a packet are the fields folded copy -> original and the fields reset,
    over their full extents, and every copy is folded exactly once.
 D7 containers that grow together (the copies and the copy -> original map) are reset together;
 D8 the neighbour table create_subgrid gives a subgrid is the geometric one (assumption A1), by finite case evaluation of
    its integer code for 1, 2, 3 subgrids per axis, every periodicity and every subgrid (c03_wiring.py).
Not decided: numeric equality of estimators between layouts.
"""
import sympy as sp

from .. import cfg as C
from ..astdb import AnalysisBroken, where
from ..tables import Directions, switch_arms, arm_return, arm_aborts
from .c02 import axis_subscripts, zero_lit


def sign_conjunction(e):
    """{(axis, +1|-1)} for `d[a] > 0 && d[b] < 0 ...`; None if not of that form."""
    out = set()

    def go(x):
        x = C.strip_casts(x)
        if x.get("k") == "Bin" and x["op"] == "&&":
            return go(x["a"]) and go(x["b"])
        if x.get("k") == "Bin" and x["op"] in (">", "<") and zero_lit(x["b"]):
            subs = axis_subscripts(x["a"], {"direction"})
            if len(subs) == 1 and isinstance(subs[0][1], int):
                out.add((subs[0][1], 1 if x["op"] == ">" else -1))
                return True
        if x.get("k") == "Bool" and x["v"]:
            return True
        return False
    return out if go(e) else None


def run(chk, prog):
    chk.explanation = (
        "The four direction tables (opposite direction, output / input compatibility, re-positioning) are partially "
        "evaluated for all 27 directions and compared with the geometric signature derived from the exit "
        "classification; the hand-over code is checked to tag what leaves through direction i with neighbour(i) and the "
        "opposite direction; the estimator fields accumulated by a packet are compared with the fields folded from "
        "copies and reset, and each copy is folded exactly once. Estimator equality between layouts is numeric and the "
        "neighbour wiring is runtime arithmetic: neither is decided.")
    chk.assumptions.append("A1: neighbour tables are mutual and geometrically correct (runtime index arithmetic)")
    u = prog.umbrella
    chk.analysed(unit="umbrella")
    D = Directions(u)
    if D.problems or len(D.sig) != 27:
        raise AnalysisBroken("the exit classification table is not a bijection (see C02-T1); signatures unavailable")
    # ---- D6: the entry cell agrees with the re-positioning (same tables as C02-T2) -----------
    from .c02 import entry_cell_rule
    chk.floor("D6", entry_cell_rule(chk, u, D, rule="D6"), 81)
    # ---- D1 -----------------------------------------------------------------------------------
    fn = u.func("TravelDirections::output_to_input_direction")
    chk.analysed(function=fn["full"])
    from ..tables import eval_table_function
    o2i = {}
    n = 0
    for v in D.all27():
        got, rnode = eval_table_function(fn, [v])
        o2i[v] = got
        want = D.opposite(v)
        n += 1
        chk.require(got == want, "D1", "output_to_input_direction(%s) is the opposite direction" % D.name(v),
                    where(rnode, fn) if rnode is not None else where(fn),
                    "a packet leaving through %s (signature %s) enters the neighbour through %s, expected %s (%s)" %
                    (D.name(v), "".join(D.sig[v]), D.name(got) if got is not None else None, D.name(want),
                     "".join(D.sig[want])), function=fn["full"], construct="o2i %s" % D.name(v))
    chk.floor("D1", n, 27)
    # ---- D2 -----------------------------------------------------------------------------------
    n = 0
    for nm, is_input in (("is_compatible_output_direction", False), ("is_compatible_input_direction", True)):
        fn = u.func("TravelDirections::" + nm)
        chk.analysed(function=fn["full"])
        sw, arms, default = switch_arms(fn)
        for v in D.all27():
            arm = arms.get(v)
            r = arm_return(arm) if arm is not None else None
            got = sign_conjunction(r) if r is not None else None
            sig = D.sig[D.opposite(v)] if is_input else D.sig[v]
            want = {(a, 1 if c == "P" else -1) for a, c in enumerate(sig) if c != "."}
            n += 1
            chk.require(got == want, "D2", "%s(d, %s) tests exactly the signs of the %s" %
                        (nm, D.name(v), "opposite direction" if is_input else "signature"),
                        where(r, fn) if r is not None else where(fn),
                        "for %s (signature %s) the table tests %s, expected %s" %
                        (D.name(v), "".join(D.sig[v]), sorted(got) if got is not None else "an unrecognised expression",
                         sorted(want)), function=fn["full"], construct="%s %s" % (nm, D.name(v)))
    chk.floor("D2", n, 54)
    # ---- D3 -----------------------------------------------------------------------------------
    fn = u.func("DensitySubGrid::update_photon_position")
    chk.analysed(function=fn["full"])
    sw, arms, default = switch_arms(fn)
    n = 0
    for v in D.all27():
        arm = arms.get(v)
        assigns = {}
        if arm is not None:
            for s in arm["stmts"]:
                for x in C.walk_stmt(s):
                    if x.get("k") == "Bin" and x["op"] == "=":
                        subs = axis_subscripts(x["a"], {"position"})
                        if len(subs) == 1:
                            assigns[subs[0][1]] = x["b"]
        for a in range(3):
            want = D.sig[v][a]
            rhs = assigns.get(a)
            if rhs is None:
                got = "."
            elif zero_lit(rhs):
                got = "N"
            else:
                r = C.strip_casts(rhs)
                subs = axis_subscripts(r, {"_number_of_cells", "_cell_size"})
                got = "P" if r.get("k") == "Bin" and r["op"] == "*" and \
                    sorted(subs) == [("_cell_size", a), ("_number_of_cells", a)] else "?" + C.pretty(r)
            n += 1
            chk.require(got == want, "D3", "update_photon_position(%s) %s coordinate %d" %
                        (D.name(v), {"N": "sets to 0", "P": "sets to the upper boundary", ".": "keeps"}[want], a),
                        where(rhs, fn) if rhs is not None else where(fn),
                        "entering through %s (signature %s) coordinate %d is '%s', expected '%s'" %
                        (D.name(v), "".join(D.sig[v]), a, got, want), function=fn["full"],
                        construct="reposition %s axis %d" % (D.name(v), a))
    chk.floor("D3", n, 81)
    # ---- D4 -----------------------------------------------------------------------------------
    n = 0
    for unit_name, cls in (("TaskBasedIonizationSimulation.cpp", "PhotonTraversalTaskContext<DensitySubGrid>"),
                           ("TaskBasedRadiationHydrodynamicsSimulation.cpp",
                            "PhotonTraversalTaskContext<HydroDensitySubGrid>")):
        unit = prog.unit(unit_name)
        chk.analysed(unit=unit_name)
        fns = [d for d in unit.decls if d["kind"] == "function" and d.get("cls") == cls and d["name"] == "execute"]
        if len(fns) != 1:
            raise AnalysisBroken("%s::execute not instantiated in %s" % (cls, unit_name))
        fn = fns[0]
        chk.analysed(function=fn["full"])
        loops = [s for s in C.walk_stmt(fn["body"]) if s.get("k") == "For" and
                 any(C.is_call(x, name="get_outgoing_buffer") for x in C.walk_stmt(s["body"]))]
        if len(loops) != 1:
            raise AnalysisBroken("%s: hand-over loop not found" % fn["full"])
        lp = loops[0]
        ivar = lp["init"]["d"][0]
        ikey = ("local", ivar["id"], ivar["n"])
        decls = {}
        for s in C.walk_stmt(lp["body"]):
            if s.get("k") == "Decl":
                for d in s["d"]:
                    decls[d["id"]] = d

        def is_i(e):
            return C.ref_key(e) == ikey

        def local_def_call(e, name):
            e = C.strip_casts(e)
            if C.is_call(e, name=name):
                return e
            if e.get("k") == "Ref" and e.get("id") in decls and decls[e["id"]].get("init") is not None:
                d = C.strip_casts(decls[e["id"]]["init"])
                if C.is_call(d, name=name):
                    return d
            return None
        sub_tags = [x for x in C.walk_stmt(lp["body"]) if C.is_call(x, name="set_subgrid_index", cls="PhotonBuffer")]
        dir_tags = [x for x in C.walk_stmt(lp["body"]) if C.is_call(x, name="set_direction", cls="PhotonBuffer")]
        n += 1
        okk = len(sub_tags) == 1 and len(dir_tags) == 1
        detail = "expected one set_subgrid_index and one set_direction in the hand-over loop"
        if okk:
            g = local_def_call(sub_tags[0]["a"][0], "get_neighbour")
            o = local_def_call(dir_tags[0]["a"][0], "output_to_input_direction")
            okk = g is not None and is_i(g["a"][0]) and o is not None and is_i(o["a"][0])
            detail = "new buffer is tagged with subgrid %s and direction %s" % (
                C.pretty(sub_tags[0]["a"][0]), C.pretty(dir_tags[0]["a"][0]))
        chk.require(okk, "D4", "%s: a buffer leaving through i is tagged neighbour(i) / opposite(i)" % cls,
                    where(lp, fn), detail, function=fn["full"], construct="hand-over tags")
        outb = [x for x in C.walk_stmt(lp["body"]) if C.is_call(x, name="get_outgoing_buffer")]
        actb = [x for x in C.walk_stmt(lp["body"]) if C.is_call(x) and x.get("n") in
                ("get_active_buffer", "set_active_buffer", "has_outgoing_photons")]
        n += 1
        chk.require(all(is_i(x["a"][0]) for x in outb + actb) and outb and actb, "D4",
                    "%s: thread-local buffer, active buffer and tags use the same direction index" % cls,
                    where(lp, fn), "a buffer call in the hand-over loop is not indexed by the loop direction",
                    function=fn["full"], construct="hand-over index")
        # the direction returned by interact() selects the thread-local buffer
        inter = [s for s in C.walk_stmt(fn["body"]) if s.get("k") == "Decl" and
                 any(C.is_call(x, name="interact") for d in s["d"] if d.get("init") for x in C.walk(d["init"]))]
        store = [x for x in C.walk_stmt(fn["body"]) if C.is_call(x, name="store_photon")]
        n += 1
        okk = len(inter) == 1 and len(store) == 1 and \
            C.ref_key(store[0]["a"][0]) == ("local", inter[0]["d"][0]["id"], inter[0]["d"][0]["n"])
        chk.require(okk, "D4", "%s: a packet is stored in the buffer of the direction interact() returned" % cls,
                    where(fn), "store_photon is not called with the result of interact()", function=fn["full"],
                    construct="store direction")
        # entry direction of the traversal = the tag of the incoming buffer
        icall = [x for x in C.walk_stmt(fn["body"]) if C.is_call(x, name="interact")]
        n += 1
        okk = len(icall) == 1 and C.is_call(C.strip_casts(icall[0]["a"][1]), name="get_direction", cls="PhotonBuffer")
        chk.require(okk, "D4", "%s: packets enter through the direction their buffer is tagged with" % cls, where(fn),
                    "interact() is not given the incoming buffer's direction tag", function=fn["full"],
                    construct="entry direction")
    tc = u.func("PhotonTraversalThreadContext::store_photon")
    chk.analysed(function=tc["full"])
    pid = tc["params"][0]["id"]
    subs = [x for x in C.walk_stmt(tc["body"]) if x.get("k") == "Idx" and
            C.member_name(x["a"]) in ("_local_buffers", "_local_buffer_flags")]
    n += 1
    chk.require(bool(subs) and all(C.strip_casts(x["i"]).get("id") == pid for x in subs), "D4",
                "thread-local buffers are indexed by the output direction", where(tc),
                "store_photon indexes a local buffer by something else than the output direction",
                function=tc["full"], construct="local buffer index")
    chk.floor("D4", n, 9)
    # ---- D5 -----------------------------------------------------------------------------------
    n = 0
    iv = {m["name"]: m for m in u.methods_of("IonizationVariables")}
    for need in ("increase_mean_intensity", "increase_heating", "increase_mean_intensities", "reset_mean_intensities"):
        if need not in iv:
            raise AnalysisBroken("IonizationVariables::%s not found" % need)

    def written_arrays(fn, ops):
        out = {}
        for x in C.walk_stmt(fn["body"]):
            if x.get("k") == "Bin" and x["op"] in ops:
                t = C.strip_casts(x["a"])
                if t.get("k") == "Idx" and C.member_name(t["a"]):
                    out[C.member_name(t["a"])] = x
            if C.is_call(x, fn="LockFree::add") and x["a"]:
                t = C.strip_casts(x["a"][0])
                if t.get("k") == "Idx" and C.member_name(t["a"]):
                    out[C.member_name(t["a"])] = x
        return out
    acc = set(written_arrays(iv["increase_mean_intensity"], ("+=",))) | \
        set(written_arrays(iv["increase_heating"], ("+=",)))
    # what a traversing packet calls
    uic = u.func("DensitySubGrid::update_intensity_counters")
    chk.analysed(function=uic["full"])
    # helpers of the subgrid that it hands the increments to (a per-ion helper, say) are read in place
    uic = C.with_inlined_helpers(uic, [m_ for m_ in u.methods_of("DensitySubGrid") if m_.get("body") is not None])
    called = {x["n"] for x in C.walk_stmt(uic["body"]) if C.is_call(x, cls="IonizationVariables")}
    n += 1
    chk.require({"increase_mean_intensity", "increase_heating"} <= called, "D5",
                "a traversing packet accumulates mean intensities and heating", where(uic),
                "update_intensity_counters calls %s" % sorted(called), function=uic["full"], construct="accumulators")
    rec = u.record("IonizationVariables")
    extent = {}
    for f in rec["fields"]:
        import re
        m = re.match(r"^(.*)\[(\d+)\]$", f["t"])
        if m:
            extent[f["n"]] = int(m.group(2))
    for meth, ops, what in (("increase_mean_intensities", ("+=",), "folded from a copy"),
                            ("reset_mean_intensities", ("=",), "reset")):
        fn = iv[meth]
        chk.analysed(function=fn["full"])
        got = written_arrays(fn, ops)
        n += 1
        chk.require(set(got) == acc, "D5", "the estimator fields %s are exactly the accumulated ones" % what,
                    where(fn), "%s handles %s, a packet accumulates %s: a contribution is %s" %
                    (meth, sorted(got), sorted(acc), "lost or counted twice when copies are folded"
                     if meth.startswith("increase") else "left over from the previous iteration"),
                    function=fn["full"], construct="%s field set" % meth)
        for lp in [s for s in C.walk_stmt(fn["body"]) if s.get("k") == "For"]:
            arrs = [a for a, x in got.items() if any(y is x for y in C.walk_stmt(lp["body"]))]
            c = C.strip_casts(lp["c"]) if lp.get("c") else {}
            bound = C.const_int(c.get("b")) if c.get("k") == "Bin" and c["op"] == "<" else None
            start = C.const_int(lp["init"]["d"][0].get("init")) if lp.get("init") and lp["init"].get("k") == "Decl" else None
            for a in arrs:
                n += 1
                chk.require(bound == extent.get(a) and start == 0, "D5", "%s covers all %s entries of %s" %
                            (meth, extent.get(a), a), where(lp, fn),
                            "the loop over %s runs from %s to %s, the array has %s entries" %
                            (a, start, bound, extent.get(a)), function=fn["full"], construct="%s extent %s" % (meth, a))
        if meth == "increase_mean_intensities":
            for a, x in got.items():
                r = C.strip_casts(x["b"])
                okk = r.get("k") == "Idx" and C.strip_casts(r["a"]).get("n") == a and \
                    C.ref_key(r["i"]) == C.ref_key(C.strip_casts(x["a"])["i"])
                n += 1
                chk.require(okk, "D5", "folding adds the copy's %s entry by entry" % a, where(x, fn),
                            "%s += %s" % (C.pretty(x["a"]), C.pretty(r)), function=fn["full"], construct="fold %s" % a)
    # every copy folded exactly once
    for cls_unit, full in (("TaskBasedIonizationSimulation.cpp", "DensitySubGridCreator<DensitySubGrid>"),
                           ("TaskBasedRadiationHydrodynamicsSimulation.cpp",
                            "DensitySubGridCreator<HydroDensitySubGrid>")):
        unit = prog.unit(cls_unit)
        fns = [d for d in unit.decls if d["kind"] == "function" and d.get("cls") == full and
               d["name"] == "update_original_counters"]
        if not fns:
            continue
        fn = fns[0]
        chk.analysed(function=fn["full"])
        inner = [s for s in C.walk_stmt(fn["body"]) if s.get("k") in ("While", "For") and
                 any(C.is_call(x, name="update_intensities") for x in C.walk_stmt(s["body"]))]
        inner = [s for s in inner if not any(t is not s and t.get("k") in ("While", "For") and
                                             any(C.is_call(x, name="update_intensities") for x in C.walk_stmt(t["body"]))
                                             for t in C.walk_stmt(s["body"]))]
        n += 1
        okk = len(inner) == 1
        detail = "fold loop not found"
        if okk:
            lp = inner[0]
            region = lp["body"] if not (lp.get("k") == "For" and lp.get("inc") is not None) else \
                {"k": "Block", "l": lp.get("l"), "s": [lp["body"], lp["inc"]]}
            g = C.CFG(fn, body=region, name="fold loop", loop_body=True)
            incs = [nd for nd in g.nodes if nd.kind == "stmt" and nd.ast.get("k") == "Un" and
                    nd.ast["op"] in ("pre++", "post++")]
            calls = [nd for nd in g.nodes if nd.kind == "stmt" and C.is_call(C.strip_casts(nd.ast), name="update_intensities")]
            okk = len(incs) == 1 and len(calls) == 1 and g.all_paths_pass(g.entry.id, {incs[0].id}) and \
                g.all_paths_pass(g.entry.id, {calls[0].id})
            detail = "per iteration: %d increments, %d folds" % (len(incs), len(calls))
            if okk:
                ck = C.ref_key(incs[0].ast["x"])
                call = C.strip_casts(calls[0].ast)
                arg_refs = {C.ref_key(x) for x in C.walk(call["a"][0]) if x.get("k") == "Ref"}
                cond_refs = {C.ref_key(x) for x in C.walk(lp["c"]) if x.get("k") == "Ref"}
                okk = ck in arg_refs and ck in cond_refs
                detail = "the folded copy is not selected by the loop counter"
        chk.require(okk, "D5", "%s folds every copy into its original exactly once" % full, where(fn), detail,
                    function=fn["full"], construct="fold once")
    chk.floor("D5", n, 10)
    # ---- D7: the list of copies and the copy -> original map stay parallel ------------------------------
    from . import c03_parallel
    n7 = c03_parallel.rule_D7(chk, prog.library())
    chk.floor("D7", n7, 1)
    # ---- D8: the neighbour wiring of create_subgrid is the geometric one (assumption A1, by cases) -------------------
    from . import c03_wiring
    n8 = c03_wiring.rule_D8(chk, prog.library(), D)
    chk.floor("D8", n8, 2)
