"""C06-P4: the stage ratios of the metal balance never divide by something that can be exactly zero because a
charge-transfer term was dropped.

The recombination rates are clamped (`max(0, .)` - C18-Q3), so `ne * alpha` is only known to be >= 0; what keeps the
denominators `ne * alpha + nH0 * k_H + nHe0 * k_He` away from zero is the charge-transfer term with neutral hydrogen, whose
rate is strictly positive (C18-Q1 enclosures) and whose density has a floor (H1: x(H0) >= 1e-14).  A sign analysis
(domain: zero / positive / non-negative / unknown; sums, products, conditional expressions, local helpers and lambdas
followed, branches joined) of every denominator of compute_ionization_states_metals that contains a charge-transfer term
must give "positive" on every path.  Denominators that are `ne * alpha` alone rely on the radiative rate being strictly
positive at that temperature, which is a property of the fits (C18, not decided) - they are listed, not judged.
"""
from .. import cfg as C
from ..astdb import AnalysisBroken, where

POS, NONNEG, ZERO, UNK = "positive", "non-negative", "zero", "unknown"


def jn(a, b):
    if a == b:
        return a
    if {a, b} <= {POS, NONNEG, ZERO}:
        return NONNEG
    return UNK


def add(a, b):
    if UNK in (a, b):
        return UNK
    if POS in (a, b):
        return POS
    if a == ZERO and b == ZERO:
        return ZERO
    return NONNEG


def mul(a, b):
    if ZERO in (a, b):
        return ZERO
    if UNK in (a, b):
        return UNK
    if a == POS and b == POS:
        return POS
    return NONNEG


def rule_P4(chk, fn, positive_params=("nh0", "T", "T4"), nonneg_params=("ne", "nhe0", "nhp")):
    defs = {}
    lambdas = {}
    flags = {}
    for st in C.walk_stmt(fn["body"]):
        if st.get("k") == "Decl":
            for d in st["d"]:
                init = d.get("init")
                if init is None:
                    continue
                i0 = C.strip_casts(init)
                while i0 is not None and i0.get("k") == "Ctor" and len(i0["a"]) == 1:
                    i0 = C.strip_casts(i0["a"][0])
                if i0 is not None and i0.get("k") == "Lambda":
                    lambdas[d["id"]] = i0
                else:
                    defs[d["id"]] = init
    pnames = {p["id"]: p["n"] for p in fn["params"] if "id" in p}

    def has_ct(e, depth=0):
        if depth > 6 or e is None:
            return False
        for x in C.walk(e):
            if x.get("k") == "Call" and "charge_transfer" in (x.get("n") or ""):
                return True
            if x.get("k") == "Ref" and x.get("id") in defs and x.get("id") not in pnames and \
                    not any(y.get("k") == "Bin" and y.get("op") == "/" for y in C.walk(defs[x["id"]])) and \
                    has_ct(defs[x["id"]], depth + 1):
                return True       # (a local that is itself a ratio is judged at its own division)
            if x.get("k") == "Call" and lambda_of(x) is not None:
                if any(has_ct(s_.get("x"), depth + 1) for s_ in C.walk_stmt(lambda_of(x)["body"]) if s_.get("k") == "Return"):
                    return True
        return False

    def lambda_of(call):
        for key in ("obj", "callee"):
            o = C.strip_casts(call.get(key)) if call.get(key) is not None else None
            if o is not None and o.get("k") == "Ref" and o.get("id") in lambdas:
                return lambdas[o["id"]]
        return None

    def flag_value(e, env):
        e0 = C.strip_casts(e)
        if e0.get("k") == "Bool":
            return bool(e0["v"])
        if e0.get("k") == "Un" and e0["op"] == "!":
            v = flag_value(e0["x"], env)
            return None if v is None else not v
        return None

    def sgn(e, env, depth=0):
        e = C.strip_casts(e)
        if e is None or depth > 12:
            return UNK
        k = e.get("k")
        if k in ("Float", "Int"):
            v = float(e["v"])
            return ZERO if v == 0 else (POS if v > 0 else UNK)
        if k == "Ref":
            if e.get("id") in env:
                return env[e["id"]]
            nm = pnames.get(e.get("id"))
            if nm in positive_params:
                return POS
            if nm in nonneg_params:
                return NONNEG
            if e.get("id") in defs:
                return sgn(defs[e["id"]], env, depth + 1)
            return UNK
        if k == "Idx":
            base = C.strip_casts(e["a"])
            i = C.const_int(e["i"])
            if base.get("k") == "Ref" and base.get("id") in defs and i is not None:
                init = C.strip_casts(defs[base["id"]])
                if init.get("k") == "InitList" and i < len(init["a"]):
                    return sgn(init["a"][i], env, depth + 1)
            if base.get("k") == "Ref" and pnames.get(base.get("id")) is not None:
                return NONNEG       # j_metals[...]: radiation integrals
            return UNK
        if k == "Bin" and e["op"] == "+":
            return add(sgn(e["a"], env, depth + 1), sgn(e["b"], env, depth + 1))
        if k == "Bin" and e["op"] == "*":
            return mul(sgn(e["a"], env, depth + 1), sgn(e["b"], env, depth + 1))
        if k == "Bin" and e["op"] == "/":
            a, b = sgn(e["a"], env, depth + 1), sgn(e["b"], env, depth + 1)
            if b != POS:
                return UNK
            return a if a in (POS, NONNEG, ZERO) else UNK
        if k == "Cond":
            return jn(sgn(e["a"], env, depth + 1), sgn(e["b"], env, depth + 1))
        if k == "Call":
            name = e.get("n") or ""
            if "charge_transfer" in name:
                return POS
            if name == "get_recombination_rate":
                return NONNEG
            base = (e.get("fn") or name).split("::")[-1]
            if base in ("max", "fmax") and len(e["a"]) == 2:
                a, b = sgn(e["a"][0], env, depth + 1), sgn(e["a"][1], env, depth + 1)
                if POS in (a, b):
                    return POS
                return NONNEG if (a in (NONNEG, ZERO) or b in (NONNEG, ZERO)) else UNK
            lam = lambda_of(e)
            if lam is not None:
                env2 = dict(env)
                for p, a in zip(lam["params"], e["a"]):
                    env2[p["id"]] = sgn(a, env, depth + 1)
                return ret_sign(flatten(lam["body"]), env2, depth + 1)
            return UNK
        return UNK

    def flatten(s):
        if s is None:
            return []
        if s.get("k") == "Block":
            out = []
            for x in s["s"]:
                out += flatten(x)
            return out
        return [s]

    def ret_sign(stmts, env, depth):
        """join of the signs of the values a lambda / helper body can return"""
        out = None
        for i, st in enumerate(stmts):
            k = st.get("k")
            if k == "Return" and st.get("x") is not None:
                v = sgn(st["x"], env, depth)
                return v if out is None else jn(out, v)
            if k == "If":
                a = ret_sign(flatten(st["th"]) + stmts[i + 1:], env, depth)
                b = ret_sign(flatten(st.get("el")) + stmts[i + 1:], env, depth)
                return jn(a, b)
            if k == "Decl":
                for d in st["d"]:
                    if d.get("init") is not None:
                        env = dict(env)
                        env[d["id"]] = sgn(d["init"], env, depth)
        return out if out is not None else UNK
    n = 0
    listed = []
    seen = set()
    for x in C.walk_stmt(fn["body"]):
        if x.get("k") != "Bin" or x.get("op") != "/" or id(x) in seen:
            continue
        seen.add(id(x))
        if x.get("mac"):
            continue
        den = x["b"]
        if not has_ct(den):
            s0 = sgn(den, {})
            if s0 != POS:
                listed.append("line %s: `%s`" % (x.get("l"), C.pretty(den)[:50]))
            continue
        n += 1
        s = sgn(den, {})
        chk.require(s == POS, "P4", "the denominator `%s` (line %s) stays strictly positive whatever the clamped radiative rate is" %
                    (C.pretty(den)[:70], x.get("l")), where(x, fn),
                    "its sign is only known to be %s: on some path every strictly positive term (the charge-transfer term with neutral "
                    "hydrogen) is gone, and where the clamped recombination rate is 0 the ratio is x / 0" % s, function=fn["full"],
                    construct="denominator line %s" % x.get("l"))
    if listed:
        chk.note("P4: %d purely radiative denominators rely on a strictly positive recombination rate (C18, not decided): %s" %
                 (len(listed), "; ".join(listed[:6])))
    return n
