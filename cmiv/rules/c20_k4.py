"""C20-K4: every group / attribute / dataset name the snapshot reader asks for is one the snapshot writer produces,
with the same group, the same element type and the same ion-suffix function."""
from .. import cfg as C
from .. import tables as T
from ..astdb import AnalysisBroken, where
from .c12_m3 import node_exprs


def str_pattern(e, env):
    """('lit', s) | ('cat', pattern, suffix function qname) | ('var', key) | None for a std::string-valued expression."""
    e = C.strip_casts(e)
    if e is None:
        return None
    k = e.get("k")
    if k == "Str":
        return ("lit", e["v"])
    if k == "Ctor" and e.get("a"):
        return str_pattern(e["a"][0], env)
    if k in ("Ref", "Mem"):
        key = C.ref_key(e)
        if key in env:
            return env[key]
        return ("var", key)
    if k == "Call" and e.get("op") == "+":
        args = ([e["obj"]] if e.get("obj") is not None else []) + list(e["a"])
        if len(args) == 2:
            a = str_pattern(args[0], env)
            b = C.strip_casts(args[1])
            while b is not None and b.get("k") == "Ctor" and b.get("a"):
                b = C.strip_casts(b["a"][0])
            if a is not None and b is not None and b.get("k") == "Call" and b.get("fn"):
                return ("cat", a, b["fn"])
    if k == "Call" and e.get("fn") and not e.get("op"):
        return ("call", e["fn"], [C.strip_casts(x) for x in e["a"]])
    return None


def ordered_calls(fn):
    """All calls of fn in source order (line, column), with the local string environment at that point."""
    g = C.CFG(fn)
    items = []
    for node in g.nodes:
        for a in node_exprs(node):
            for x in C.walk(a):
                if x.get("k") == "Call":
                    items.append((x.get("l", 0), x.get("c", 0), x, node))
        if node.kind == "decl":
            for d in node.ast["d"]:
                items.append((d.get("l", node.ast.get("l", 0)), -1, {"k": "DeclMark", "d": d}, node))
    items.sort(key=lambda t: (t[0], t[1]))
    return items


def hdf5_events(fn, names):
    """Sequence of (kind, group pattern, name pattern, element type, ast) for HDF5Tools calls in source order, with the
    group variable resolved to the pattern it was last opened / created with."""
    env = {}       # string locals -> pattern
    groups = {}    # group variable key -> pattern
    ev = []
    for l, c, x, node in ordered_calls(fn):
        if x.get("k") == "DeclMark":
            d = x["d"]
            if d.get("init") is not None:
                key = ("local", d["id"], d["n"])
                init = C.strip_casts(d["init"])
                if "basic_string" in (d.get("t") or ""):
                    p = str_pattern(init, env)
                    if p is not None:
                        env[key] = p
                call = init
                while call is not None and call.get("k") == "Ctor" and call.get("a"):
                    call = C.strip_casts(call["a"][0])
                if call is not None and call.get("k") == "Call" and call.get("n") in ("open_group", "create_group"):
                    groups[key] = str_pattern(call["a"][1], env)
            continue
        n = x.get("n")
        if not (x.get("fn") or "").startswith("HDF5Tools::"):
            continue
        if n in ("open_group", "create_group"):
            ev.append((n, None, str_pattern(x["a"][1], env), None, x))
        elif n in names:
            gk = C.ref_key(x["a"][0])
            ev.append((n, groups.get(gk, ("var", gk)), str_pattern(x["a"][1], env), x.get("targs"), x))
    # assignments `group = open_group(...)`
    return ev, env, groups


def track_group_assignments(fn):
    """(line, col) -> pattern for `var = HDF5Tools::open_group/create_group(...)` assignments."""
    out = []
    g = C.CFG(fn)
    for node in g.nodes:
        for a in node_exprs(node):
            for x in C.walk(a):
                rhs = None
                if x.get("k") == "Bin" and x.get("op") == "=":
                    tgt, rhs = x["a"], x["b"]
                elif x.get("k") == "Call" and x.get("op") == "=" and x.get("obj") is not None and x["a"]:
                    tgt, rhs = x["obj"], x["a"][0]
                if rhs is None:
                    continue
                r = C.strip_casts(rhs)
                while r is not None and r.get("k") == "Ctor" and r.get("a"):
                    r = C.strip_casts(r["a"][0])
                if r is not None and r.get("k") == "Call" and r.get("n") in ("open_group", "create_group"):
                    out.append((x.get("l", 0), x.get("c", 0), C.ref_key(tgt), r))
    return out


def events_with_groups(fn, names):
    """Like hdf5_events but also follows re-assignments of a group variable."""
    items = ordered_calls(fn)
    assigns = {id(r): key for (_, _, key, r) in track_group_assignments(fn)}
    env, groups, ev = {}, {}, []
    for l, c, x, node in items:
        if x.get("k") == "DeclMark":
            d = x["d"]
            if d.get("init") is None:
                continue
            key = ("local", d["id"], d["n"])
            init = C.strip_casts(d["init"])
            if "basic_string" in (d.get("t") or ""):
                p = str_pattern(init, env)
                if p is not None:
                    env[key] = p
            call = init
            while call is not None and call.get("k") == "Ctor" and call.get("a"):
                call = C.strip_casts(call["a"][0])
            if call is not None and call.get("k") == "Call" and call.get("n") in ("open_group", "create_group"):
                groups[key] = str_pattern(call["a"][1], env)
            continue
        if not (x.get("fn") or "").startswith("HDF5Tools::"):
            continue
        n = x.get("n")
        if n in ("open_group", "create_group"):
            p = str_pattern(x["a"][1], env)
            if id(x) in assigns:
                groups[assigns[id(x)]] = p
            ev.append((n, None, p, None, x))
        elif n in names:
            gk = C.ref_key(x["a"][0])
            ev.append((n, groups.get(gk), str_pattern(x["a"][1], env), x.get("targs"), x))
    return ev


def norm_group(p):
    if p and p[0] == "lit":
        return p[1].lstrip("/")
    return None


def rule_K4(chk, prog):
    lib = prog.library()
    n = 0
    # ---- writer vocabulary -----------------------------------------------------------------
    wu = prog.unit("GadgetDensityGridWriter.cpp")
    chk.analysed(unit=wu.name)
    writers = [d for d in wu.decls if d["kind"] == "function" and d.get("body") and
               d["full"].startswith("GadgetDensityGridWriter::write")]
    if not writers:
        raise AnalysisBroken("GadgetDensityGridWriter::write not found")
    fields_get_name = lib.func("DensityGridWriterFields::get_name")
    fields_get_type = lib.func("DensityGridWriterFields::get_type")
    fields_is_ion = lib.func("DensityGridWriterFields::is_ion_property")
    fields_is_heat = lib.func("DensityGridWriterFields::is_heating_property")
    fenum = T.enum_values(lib, "DensityGridField")
    tenum = T.enum_values(lib, "DensityGridFieldType")
    nfields = fenum.get("DENSITYGRIDFIELD_NUMBER")

    def table(fn, conv):
        _, arms, default = T.switch_arms(fn)
        out = {}
        for v, arm in arms.items():
            r = T.arm_return(arm)
            if r is not None:
                out[v] = conv(C.strip_casts(r))
        return out

    def lit(e):
        while e is not None and e.get("k") == "Ctor" and e.get("a"):
            e = C.strip_casts(e["a"][0])
        return e.get("v") if e is not None and e.get("k") == "Str" else None
    names = table(fields_get_name, lit)
    types = table(fields_get_type, C.const_int)
    ision = table(fields_is_ion, lambda e: bool(C.const_int(e)))
    isheat = table(fields_is_heat, lambda e: bool(C.const_int(e)))
    present = [v for v in names if nfields is None or v < nfields]
    if len(present) < 8:
        raise AnalysisBroken("DensityGridWriterFields::get_name: only %d field names recognised" % len(present))
    vec_t = tenum.get("DENSITYGRIDFIELDTYPE_VECTOR_DOUBLE")
    wgroups, wattrs = set(), {}
    ion_suffix_fns = set()
    uses_field_names = False
    for w in writers:
        chk.analysed(function=w["full"])
        for kind, grp, name, targs, x in events_with_groups(w, ("write_attribute", "create_dataset")):
            if kind == "create_group" and name and name[0] == "lit":
                wgroups.add(name[1].lstrip("/"))
            elif kind == "write_attribute" and name and name[0] == "lit":
                wattrs.setdefault(norm_group(grp), set()).add(name[1])
            elif kind == "create_dataset":
                if name and name[0] == "call" and name[1] == "DensityGridWriterFields::get_name":
                    uses_field_names = True
                elif name and name[0] == "cat" and name[1] and name[1][0] == "call" and \
                        name[1][1] == "DensityGridWriterFields::get_name":
                    ion_suffix_fns.add(name[2])
    if not uses_field_names or not ion_suffix_fns:
        raise AnalysisBroken("GadgetDensityGridWriter::write: dataset names are not built from "
                             "DensityGridWriterFields::get_name (+ ion suffix) any more")
    chk.extra["snapshot_writer"] = {"groups": sorted(wgroups), "attributes": {k or "?": sorted(v) for k, v in wattrs.items()},
                                    "field_names": {str(k): v for k, v in sorted(names.items())},
                                    "ion_suffix_functions": sorted(ion_suffix_fns)}
    byname = {v: k for k, v in names.items() if v}
    # ---- reader ------------------------------------------------------------------------------
    ru = prog.unit("CMacIonizeSnapshotDensityFunction.cpp")
    chk.analysed(unit=ru.name)
    rf = ru.func("CMacIonizeSnapshotDensityFunction::initialize")
    chk.analysed(function=rf["full"])
    for kind, grp, name, targs, x in events_with_groups(rf, ("read_attribute", "read_dataset", "group_exists")):
        w = where(x, rf)
        if name is None or name[0] == "var":
            continue      # names enumerated from the file itself (parameter block)
        if kind == "open_group":
            gname = norm_group(name)
            n += 1
            chk.require(gname in wgroups, "K4", "group `%s` opened by the snapshot reader is created by the writer" % gname, w,
                        "the writer creates the groups %s" % sorted(wgroups), function=rf["full"], construct="group %s" % gname)
            continue
        gname = norm_group(grp)
        if kind == "read_attribute":
            n += 1
            chk.require(name[0] == "lit" and name[1] in wattrs.get(gname, ()), "K4",
                        "attribute `%s` of group `%s` is written by the writer" % (name[1] if name[0] == "lit" else name, gname),
                        w, "the writer writes %s in that group" % sorted(wattrs.get(gname, ())), function=rf["full"],
                        construct="attribute %s/%s" % (gname, name[1] if name[0] == "lit" else "?"))
            continue
        # datasets (read_dataset, or group_exists on a dataset name inside PartType0) / top-level group tests
        if kind == "group_exists" and grp is None:
            if name[0] == "lit":
                n += 1
                chk.require(name[1].lstrip("/") in wgroups, "K4", "group `%s` tested by the reader is one the writer creates" %
                            name[1], w, "the writer creates %s" % sorted(wgroups), function=rf["full"],
                            construct="group %s" % name[1].lstrip("/"))
            continue
        if name[0] == "lit":
            fld = byname.get(name[1])
            okk = fld is not None and not ision.get(fld) and not isheat.get(fld)
            detail = "no field of DensityGridWriterFields is written under the plain name `%s`" % name[1]
            if okk and kind == "read_dataset":
                want_vec = types.get(fld) == vec_t
                is_vec = "CoordinateVector" in str(targs)
                okk = want_vec == is_vec
                detail = "field `%s` is written as a %s dataset but read as %s" % (
                    name[1], "vector" if want_vec else "scalar", targs)
            n += 1
            chk.require(okk, "K4", "dataset `%s` (%s) is a field the writer writes under that name and type" %
                        (name[1], kind), w, detail, function=rf["full"], construct="dataset %s" % name[1])
        elif name[0] == "cat":
            base = name[1]
            fld = byname.get(base[1]) if base and base[0] == "lit" else None
            n += 1
            chk.require(fld is not None and ision.get(fld) and name[2] in ion_suffix_fns, "K4",
                        "per-ion dataset `%s + %s(i)` (%s) is a per-ion field with the writer's suffix function" %
                        (base[1] if base else "?", name[2].split("::")[-1], kind), w,
                        "per-ion fields are %s, the writer's suffix function is %s" %
                        (sorted(names[k] for k in names if ision.get(k)), sorted(ion_suffix_fns)), function=rf["full"],
                        construct="per-ion dataset %s" % (base[1] if base else "?"))
        else:
            n += 1
            chk.fail("K4", "dataset name at line %s" % x.get("l"), w, "name expression not understood: %s" % (name,),
                     function=rf["full"], construct="name form")
    return n


def rule_K4_units(chk, prog, table):
    """The unit attributes: (value the writer stores) x (factor of the unit the reader converts from) = 1, because the
    writer stores SI data; attributes the reader uses raw must be stored as 1."""
    import sympy as sp
    from ..sym import Converter, Env
    wu = prog.unit("GadgetDensityGridWriter.cpp")
    ru = prog.unit("CMacIonizeSnapshotDensityFunction.cpp")
    rf = ru.func("CMacIonizeSnapshotDensityFunction::initialize")
    conv = Converter()
    n = 0
    written = {}
    for w in [d for d in wu.decls if d["kind"] == "function" and d.get("body") and
              d["full"].startswith("GadgetDensityGridWriter::write")]:
        lits = {}
        for s in C.walk_stmt(w["body"]):
            if s.get("k") == "Decl":
                for d in s["d"]:
                    if d.get("init") is not None and C.strip_casts(d["init"]).get("k") in ("Float", "Int"):
                        lits[("local", d["id"], d["n"])] = conv.conv(d["init"], Env())
        for kind, grp, name, targs, x in events_with_groups(w, ("write_attribute",)):
            if kind == "write_attribute" and norm_group(grp) == "Units" and name and name[0] == "lit" and len(x["a"]) >= 3:
                v = lits.get(C.ref_key(x["a"][2]))
                if v is None and C.strip_casts(x["a"][2]).get("k") in ("Float", "Int"):
                    v = conv.conv(x["a"][2], Env())
                written.setdefault(name[1], set()).add(v)
    # reader: locals initialised from read_attribute(units, name); then to_SI<Q>(local, "unit") or raw use
    src = {}
    for s in C.walk_stmt(rf["body"]):
        if s.get("k") == "Decl":
            for d in s["d"]:
                init = C.strip_casts(d.get("init")) if d.get("init") is not None else None
                if init is not None and init.get("k") == "Call" and init.get("n") == "read_attribute":
                    p = str_pattern(init["a"][1], {})
                    if p and p[0] == "lit":
                        src[("local", d["id"], d["n"])] = (p[1], d)
    converted = {}
    g = C.CFG(rf)
    for node in g.nodes:
        for a in node_exprs(node):
            for x in C.walk(a):
                if x.get("k") == "Call" and x.get("n") == "to_SI" and len(x["a"]) == 2 and C.ref_key(x["a"][0]) in src:
                    p = str_pattern(x["a"][1], {})
                    converted[C.ref_key(x["a"][0])] = (p[1] if p and p[0] == "lit" else None, x)
    from .c20 import parse_unit_string
    for key, (attr, d) in sorted(src.items(), key=str):
        vals = written.get(attr, set())
        n += 1
        if key in converted:
            ustr, x = converted[key]
            dims, fac, err = parse_unit_string(ustr or "", table)
            okk = err is None and len(vals) == 1 and None not in vals and sp.simplify(list(vals)[0] * fac - 1) == 0
            chk.require(okk, "K4", "unit attribute `%s`: value written x factor of `%s` = 1 (data are stored in SI)" % (attr, ustr),
                        where(x, rf), "writer stores %s, the reader converts from `%s` (factor %s): the data come back scaled by %s" %
                        (sorted(map(str, vals)), ustr, fac, [str(v * fac) for v in vals if v is not None and fac is not None]),
                        function=rf["full"], construct="unit %s" % attr)
        else:
            okk = len(vals) == 1 and None not in vals and list(vals)[0] == 1
            chk.require(okk, "K4", "unit attribute `%s` is used without conversion by the reader and stored as 1 by the writer" % attr,
                        where(d, rf), "writer stores %s but the reader uses the value as if it were SI" % sorted(map(str, vals)),
                        function=rf["full"], construct="unit %s" % attr)
    return n


def rule_K4_parameter_keys(chk, prog):
    """Keys the snapshot reader looks up in the stored parameter block are keys that the simulation components read from
    the parameter file (so that they are in the block that the writer copies from the ParameterFile)."""
    lib = prog.library()
    ru = prog.unit("CMacIonizeSnapshotDensityFunction.cpp")
    rf = ru.func("CMacIonizeSnapshotDensityFunction::initialize")
    getters = ("get_value", "get_physical_value", "get_physical_vector", "has_value")

    def keys_of(fn):
        out = []
        g = C.CFG(fn)
        for node in g.nodes:
            for a in node_exprs(node):
                for x in C.walk(a):
                    if x.get("k") == "Call" and x.get("n") in getters and (x.get("cls") or "").startswith("ParameterFile") \
                            and x["a"]:
                        p = str_pattern(x["a"][0], {})
                        if p and p[0] == "lit":
                            out.append((p[1], x))
        return out
    wanted = keys_of(rf)
    if len(wanted) < 4:
        raise AnalysisBroken("snapshot reader: only %d parameter keys recognised" % len(wanted))
    known = set()
    for d in lib.decls:
        if d["kind"] != "function" or not d.get("body") or d.get("dependent"):
            continue
        if d["full"].startswith("CMacIonizeSnapshotDensityFunction::"):
            continue
        f = d.get("file") or ""
        if not f.startswith(prog_src()):
            continue
        # cheap pre-filter: only functions that call a getter at all
        for s in C.walk_stmt(d["body"]):
            if s.get("k") in ("Block", "If", "For", "While", "Do", "ForRange", "Switch"):
                continue
            exprs = [dd["init"] for dd in s["d"] if dd.get("init") is not None] if s.get("k") == "Decl" else [s]
            for e in exprs:
                for x in C.walk(e):
                    if x.get("k") == "Call" and x.get("n") in getters and (x.get("cls") or "").startswith("ParameterFile") \
                            and x["a"]:
                        p = str_pattern(x["a"][0], {})
                        if p and p[0] == "lit":
                            known.add(p[1])
        for ini in d.get("inits", []) or []:
            if ini.get("x") is not None:
                for x in C.walk(ini["x"]):
                    if x.get("k") == "Call" and x.get("n") in getters and (x.get("cls") or "").startswith("ParameterFile") \
                            and x["a"]:
                        p = str_pattern(x["a"][0], {})
                        if p and p[0] == "lit":
                            known.add(p[1])
    n = 0
    for key, x in wanted:
        n += 1
        chk.require(key in known, "K4", "parameter key `%s` read back from a snapshot is a key some component reads from the "
                    "parameter file" % key, where(x, rf), "no other function of the library reads `%s` from a ParameterFile: the "
                    "stored parameter block (a copy of the used parameters) cannot contain it" % key, function=rf["full"],
                    construct="parameter key %s" % key)
    return n


def prog_src():
    from ..astdb import REPO
    import os
    return os.path.join(REPO, "src")
