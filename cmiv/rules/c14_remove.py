"""C14-U7: the rotation deletes no backup that is to be kept.

"The previous complete dumps, up to the configured number, are kept" is decided by U3 for what the renames overwrite.  A
file can also be destroyed by an explicit deletion (std::remove / unlink / std::filesystem::remove).  For every such call in
the rotation function:

  * its target must be a slot of the chain (`restart.<k>.back`, k an integer expression of the class counters);
  * its *stage* is read from the control-flow graph: before every rename, after the shift, or after the dump was moved to
    backup 0 (a deletion inside a loop, or after the counters were written, is not read: exit 2);
  * its guards are the conditions of the enclosing `if`s;
  * the slots that are to be kept at each stage are, with nb backups present and max configured:
        before the shift        old slots 0 .. min(nb, max-1)-1   (they move up by one; old slot max-1 falls off the end)
        after the shift         slots 1 .. min(nb, max-1)
        after the dump rename   slots 0 .. min(nb, max-1)
  * finite case evaluation over the reachable counter states (max 0..4, dumps 0..6, nb = min(max, dumps-1)): a state in
    which the guards hold and k is a slot to be kept is a concrete history that loses a backup - reported with that state.

The counters enter only through comparisons, min and +-1, so the cases up to max = 4 cover every ordering of
(k, nb, max-1) that larger values can produce; no case is executed - guards and k are evaluated as integer expressions.
"""
from .. import cfg as C
from ..astdb import AnalysisBroken, where

DESTROYERS = ("remove", "std::remove", "unlink", "std::filesystem::remove", "std::filesystem::remove_all", "remove_all")


def _is_destroyer(x):
    if not C.is_call(x):
        return False
    fnm = x.get("fn") or ""
    if fnm in DESTROYERS and len(x.get("a", [])) == 1:
        return True
    return False


def rule_U7(chk, fn, g, shift_renames, dump_renames, dump_local, name_helpers=None, name_helper_pos=None,
            counters=("_maximum_number_of_backups", "_number_of_backups", "_number_of_restarts")):
    name_helpers = name_helpers or {}
    name_helper_pos = name_helper_pos or {}
    mx_n, nb_n, nr_n = counters
    calls = []
    for node in g.nodes:
        if node.ast is None or node.kind == "marker":
            continue
        from .c12_m3 import node_exprs
        for a in node_exprs(node):
            for x in C.walk(a):
                if _is_destroyer(x) and not any(x is y for _, y in calls):
                    calls.append((node, x))
    if not calls:
        chk.ok("U7", "the rotation deletes no file explicitly (what is lost is only what the renames overwrite: U3)", where(fn))
        return 1

    # names: stringstream / string locals -> index expression (AST)
    index_ast = {}
    for s in C.walk_stmt(fn["body"]):
        for x in (C.walk(s) if s.get("k") not in ("Block", "If", "For", "While", "Do") else ()):
            if C.is_call(x) and x.get("op") == "<<":
                root = x
                ops = []
                while C.is_call(root) and root.get("op") == "<<":
                    args = ([root["obj"]] if root.get("obj") is not None else []) + root["a"]
                    ops.append(args[1])
                    root = C.strip_casts(args[0])
                if root.get("k") == "Ref" and "id" in root:
                    strs = [C.strip_casts(o).get("v", "") for o in ops if C.strip_casts(o).get("k") == "Str"]
                    ints = [o for o in ops if C.strip_casts(o).get("k") != "Str" and
                            any(t in (C.strip_casts(o).get("t") or "") for t in ("int", "long")) and
                            "char" not in (C.strip_casts(o).get("t") or "")]
                    if any("restart." in t for t in strs) and any(".back" in t for t in strs) and len(ints) == 1:
                        index_ast[root["id"]] = ints[0]

    str_inits = {}
    for s_ in C.walk_stmt(fn["body"]):
        if s_.get("k") == "Decl":
            for d_ in s_["d"]:
                if d_.get("init") is not None and "string" in (d_.get("t") or "") and d_["id"] != dump_local["id"]:
                    str_inits[d_["id"]] = d_["init"]

    def target_index(e):
        e = C.strip_casts(e)
        while True:
            if e.get("k") == "Call" and e.get("obj") is not None and e.get("n") in ("c_str", "str"):
                e = C.strip_casts(e["obj"])
                continue
            if e.get("k") == "Ctor" and len(e.get("a", [])) == 1:
                e = C.strip_casts(e["a"][0])
                continue
            break
        if e.get("k") == "Call" and e.get("fn") in name_helpers and e.get("a"):
            return e["a"][name_helper_pos.get(e["fn"], 0)]          # a helper that builds `restart.<k>.back` from k
        if e.get("k") == "Ref" and e.get("id") in index_ast:
            return index_ast[e["id"]]
        if e.get("k") == "Ref" and e.get("id") in str_inits:
            return target_index(str_inits[e["id"]])
        if e.get("k") == "Ref" and e.get("id") == dump_local["id"]:
            return "dump"
        if dump_local.get("member") and C.member_name(e) == dump_local["n"]:
            return "dump"
        return None

    def cev(e, st):
        e = C.strip_casts(e)
        k = e.get("k")
        if k == "Int":
            return int(e["v"])
        if k == "Bool":
            return bool(e["v"])
        m = C.member_name(e)
        if m in st:
            return st[m]
        if k == "Bin":
            op = e["op"]
            if op == "&&":
                return bool(cev(e["a"], st)) and bool(cev(e["b"], st))
            if op == "||":
                return bool(cev(e["a"], st)) or bool(cev(e["b"], st))
            a, b = cev(e["a"], st), cev(e["b"], st)
            if op in ("+", "-", "*"):
                v = a + b if op == "+" else (a - b if op == "-" else a * b)
                if "unsigned" in (e.get("t") or "") or "uint" in (e.get("t") or ""):
                    v %= 2 ** 64
                return v
            if op in ("<", ">", "<=", ">=", "==", "!="):
                return {"<": a < b, ">": a > b, "<=": a <= b, ">=": a >= b, "==": a == b, "!=": a != b}[op]
        if k == "Un" and e.get("op") == "!":
            return not cev(e["x"], st)
        if k == "Call" and (e.get("fn") or "").split("::")[-1] in ("min", "max") and len(e["a"]) == 2:
            a, b = cev(e["a"][0], st), cev(e["a"][1], st)
            return min(a, b) if e["fn"].endswith("min") else max(a, b)
        raise AnalysisBroken("U7: `%s` is not an integer expression of the backup counters" % C.pretty(e))

    # enclosing structure of every statement: guards and loops
    ctx = {}

    def walk(s, guards, in_loop):
        if not isinstance(s, dict):
            return
        k = s.get("k")
        if k == "Block":
            for x in s.get("s", []):
                walk(x, guards, in_loop)
        elif k == "If":
            for x in C.walk(s["c"]):
                ctx[id(x)] = (guards, in_loop)
            walk(s["th"], guards + [(s["c"], True)], in_loop)
            walk(s.get("el"), guards + [(s["c"], False)], in_loop)
        elif k in ("For", "While", "Do", "RangeFor"):
            walk(s.get("body"), guards, True)
        else:
            for x in C.walk_stmt(s):
                ctx[id(x)] = (guards, in_loop)
            for x in C.walk(s):
                ctx[id(x)] = (guards, in_loop)
    walk(fn["body"], [], False)

    after_shift = set()
    for n_, _ in shift_renames:
        after_shift |= g.reachable(n_.id)
    after_dump = set()
    for n_, _ in dump_renames:
        after_dump |= g.reachable(n_.id)
    writes = []
    for node in g.nodes:
        if node.ast is None:
            continue
        from .c12_m3 import node_exprs
        for a in node_exprs(node):
            for x in C.walk(a):
                tgt = None
                if x.get("k") == "Un" and x.get("op") in ("pre++", "post++", "pre--", "post--"):
                    tgt = x["x"]
                elif x.get("k") == "Bin" and x.get("op", "").endswith("=") and x["op"] not in ("==", "!=", "<=", ">="):
                    tgt = x["a"]
                if tgt is not None and C.member_name(tgt) in counters:
                    writes.append(node)
    n = 0
    for node, x in calls:
        inst = "deletion `%s`" % C.pretty(x)[:60]
        tgt = target_index(x["a"][0])
        if tgt is None:
            raise AnalysisBroken("U7: the target of %s in %s is not a name of the backup chain" % (C.pretty(x)[:50], fn["full"]))
        guards, in_loop = ctx.get(id(x), ([], False))
        if in_loop:
            raise AnalysisBroken("U7: a file is deleted inside a loop of the rotation (line %s)" % x.get("l"))
        if any(node.id in g.reachable(w.id) for w in writes):
            raise AnalysisBroken("U7: a file is deleted after the backup counters were updated (line %s)" % x.get("l"))
        stage = "after the dump rename" if node.id in after_dump else ("after the shift" if node.id in after_shift else
                                                                         "before the shift")
        n += 1
        if tgt == "dump":
            chk.require(stage == "after the dump rename", "U7", "%s (%s) does not destroy the newest state" % (inst, stage),
                        where(x, fn), "the dump file itself is deleted %s: the newest complete state is gone before the new one "
                        "is written" % stage, function=fn["qname"], construct="deletion of the dump")
            continue
        witness = None
        for mx in range(0, 5):
            for dumps in range(0, 7):
                nb = min(mx, max(dumps - 1, 0))
                st = {mx_n: mx, nb_n: nb, nr_n: dumps}
                try:
                    if not all(bool(cev(c, st)) == pol for c, pol in guards):
                        continue
                    k = cev(tgt, st)
                except AnalysisBroken:
                    raise
                top = min(nb, mx - 1)
                if stage == "before the shift":
                    kept = range(0, max(top, 0))
                elif stage == "after the shift":
                    kept = range(1, top + 1)
                else:
                    kept = range(0, top + 1)
                if k in kept and witness is None:
                    witness = (mx, dumps, nb, k)
        chk.require(witness is None, "U7", "%s (%s) removes no backup that is to be kept" % (inst, stage), where(x, fn),
                    "with %d backups configured, at dump %d (%d backups present) the guards of this deletion hold and it removes "
                    "restart.%d.back %s - a slot that holds a previous dump that must be kept: one backup fewer than configured "
                    "survives" % ((witness or (0, 0, 0, 0))[0], (witness or (0, 0, 0, 0))[1] + 1, (witness or (0, 0, 0, 0))[2],
                                  (witness or (0, 0, 0, 0))[3], stage), function=fn["qname"], construct="deletion of a kept backup")
    return n


def rule_U8(chk, u, rotation_fn, cls="RestartManager"):
    """Outside the rotation nothing deletes a dump or a backup: for every file-destroying call in the other methods of the
    manager the name is resolved - through locals and through members initialised in the constructors - to the string
    literals it is built from; a name built from "restart." / ".dump" / ".back" is one of the dump files."""
    methods = [m for m in u.methods_of(cls) if m.get("body") is not None]
    member_inits = {}
    for m in methods:
        if m.get("ctor"):
            for ini in m.get("inits") or []:
                if ini.get("member") and ini.get("x") is not None:
                    member_inits.setdefault(ini["member"], []).append(ini["x"])
            for s_ in C.walk_stmt(m["body"]):
                if s_.get("k") == "Bin" and s_.get("op") == "=" and C.member_name(s_["a"]):
                    member_inits.setdefault(C.member_name(s_["a"]), []).append(s_["b"])
    n = 0
    for m in methods:
        if m is rotation_fn or m["full"] == rotation_fn["full"] or m.get("ctor"):
            continue
        decls = {}
        for s_ in C.walk_stmt(m["body"]):
            if s_.get("k") == "Decl":
                for d in s_["d"]:
                    decls[d["id"]] = d

        def literals(e, depth=0):
            out = set()
            if e is None or depth > 6:
                return out
            for x in C.walk(e):
                if x.get("k") == "Str":
                    out.add(x.get("v") or "")
                elif x.get("k") == "Ref" and x.get("id") in decls and decls[x["id"]].get("init") is not None:
                    out |= literals(decls[x["id"]]["init"], depth + 1)
                elif C.member_name(x) in member_inits:
                    for ie in member_inits[C.member_name(x)]:
                        out |= literals(ie, depth + 1)
            return out
        seen_calls = []
        for x in C.walk_stmt(m["body"]):
            if _is_destroyer(x) and not any(x is y for y in seen_calls):
                seen_calls.append(x)
                lits = literals(x["a"][0])
                n += 1
                if not lits:
                    raise AnalysisBroken("U8: the file deleted by %s in %s cannot be named" % (C.pretty(x)[:50], m["full"]))
                hit = sorted(t for t in lits if "restart." in t or t.endswith(".dump") or t.endswith(".back"))
                chk.require(not hit, "U8", "%s: `%s` does not delete a restart dump" % (m["name"], C.pretty(x)[:50]), where(x, m),
                            "the deleted name is built from %s: the newest complete dump (or a backup) is removed outside the "
                            "rotation, the next dump finds nothing to move to backup 0 and aborts, and until it is written no "
                            "complete dump of the last state is on disk" % hit, function=m["full"],
                            construct="deletion outside the rotation")
    if n == 0:
        chk.ok("U8", "no other method of %s deletes a file" % cls, where(rotation_fn))
        n = 1
    return n
