"""A small abstract interpreter over the exported AST: dyadic-grid intervals for floating-point
variables, integer intervals for integer variables, smashed arrays, call inlining with reference
parameters.  It never evaluates the program on concrete data: every variable holds a SET of values

    G(lo, hi, e) = { n * 2^e : lo <= n <= hi, n integer }      (floating point, exact dyadic rationals)
    I(lo, hi)    = { n : lo <= n <= hi }                        (integers, bounds may be infinite)

and every floating-point operation is checked for exactness: the result set must consist of numbers
whose significand fits in 53 bits (then IEEE-754 double arithmetic computes them without rounding and the
abstract result is the concrete result set).  Loops are iterated to a fixpoint of the join (with
widening of integer bounds); loops with a constant trip count are unrolled.
"""
import math
from fractions import Fraction

from . import cfg as C
from .astdb import AnalysisBroken

INF = float("inf")


class G:
    """Dyadic grid interval."""
    __slots__ = ("lo", "hi", "e")

    def __init__(self, lo, hi, e):
        if lo > hi:
            raise ValueError("empty")
        # normalise: singletons to the coarsest grid
        if lo == hi and lo != 0:
            while lo % 2 == 0:
                lo //= 2
                e += 1
            hi = lo
        if lo == hi == 0:
            e = 0
        self.lo, self.hi, self.e = lo, hi, e

    def on(self, e):
        if e > self.e:
            raise ValueError("cannot coarsen")
        k = 1 << (self.e - e)
        return self.lo * k, self.hi * k

    def exact_in_double(self):
        return max(abs(self.lo), abs(self.hi)) < (1 << 53) and -1070 < self.e < 960

    def is_const(self):
        return self.lo == self.hi

    def value(self):
        return Fraction(self.lo) * (Fraction(2) ** self.e)

    def __eq__(self, o):
        return isinstance(o, G) and (self.lo, self.hi, self.e) == (o.lo, o.hi, o.e)

    def __hash__(self):
        return hash((self.lo, self.hi, self.e))

    def __repr__(self):
        if self.is_const():
            return "{%s}" % self.value()
        return "[%d..%d]*2^%d" % (self.lo, self.hi, self.e)


class I:
    __slots__ = ("lo", "hi")

    def __init__(self, lo, hi):
        if lo > hi:
            raise ValueError("empty")
        self.lo, self.hi = lo, hi

    def is_const(self):
        return self.lo == self.hi

    def __eq__(self, o):
        return isinstance(o, I) and (self.lo, self.hi) == (o.lo, o.hi)

    def __hash__(self):
        return hash((self.lo, self.hi))

    def __repr__(self):
        return "[%s..%s]" % (self.lo, self.hi)


class Top:
    def __repr__(self):
        return "T"

    def __eq__(self, o):
        return isinstance(o, Top)

    def __hash__(self):
        return 1


TOP = Top()


def join(a, b):
    if a is None:
        return b
    if b is None:
        return a
    if isinstance(a, Top) or isinstance(b, Top):
        return TOP
    if isinstance(a, I) and isinstance(b, I):
        return I(min(a.lo, b.lo), max(a.hi, b.hi))
    if isinstance(a, G) and isinstance(b, G):
        e = min(a.e, b.e)
        al, ah = a.on(e)
        bl, bh = b.on(e)
        return G(min(al, bl), max(ah, bh), e)
    return TOP


def g_add(a, b, sign=1):
    e = min(a.e, b.e)
    al, ah = a.on(e)
    bl, bh = b.on(e)
    if sign > 0:
        return G(al + bl, ah + bh, e)
    return G(al - bh, ah - bl, e)


def g_from_fraction(fr):
    d = fr.denominator
    if d & (d - 1):
        return None
    return G(fr.numerator, fr.numerator, -(d.bit_length() - 1))


def is_float_type(t):
    t = (t or "").replace("const ", "").strip()
    return t in ("double", "float", "long double")


def is_int_type(t):
    t = (t or "").replace("const ", "").strip()
    return t in ("int", "long", "unsigned long", "unsigned int", "unsigned char", "signed char", "char", "short",
                 "unsigned short", "long long", "unsigned long long", "bool")


def int_range(t):
    t = (t or "").replace("const ", "").strip()
    return {"int": (-2 ** 31, 2 ** 31 - 1), "long": (-2 ** 63, 2 ** 63 - 1), "unsigned long": (0, 2 ** 64 - 1),
            "unsigned int": (0, 2 ** 32 - 1), "unsigned char": (0, 255), "bool": (0, 1),
            "long long": (-2 ** 63, 2 ** 63 - 1), "unsigned long long": (0, 2 ** 64 - 1),
            "short": (-2 ** 15, 2 ** 15 - 1), "unsigned short": (0, 2 ** 16 - 1), "char": (-128, 127),
            "signed char": (-128, 127)}.get(t)


class Finding:
    def __init__(self, kind, node, text):
        self.kind, self.node, self.text = kind, node, text


class Interp:
    """Structured abstract interpreter for one class's member functions."""

    def __init__(self, unit, cls):
        self.unit = unit
        self.cls = cls
        self.findings = []      # inexact operations, possible out-of-bounds, unknown constructs
        self.checked_ops = 0
        self.checked_indices = 0
        self.array_sizes = {}
        self.depth = 0

    # ------------------------------------------------------------------ state helpers
    # state: dict key -> abstract value; keys: ("m", name) members, ("l", id) locals; arrays are smashed
    # refs: dict local id -> lvalue (reference parameters / pointer aliases)

    def note(self, kind, node, text):
        self.findings.append(Finding(kind, node, text))

    def lvalue(self, e, st, refs):
        """-> (key, index value or None)"""
        e = C.strip_casts(e)
        k = e.get("k")
        if k == "Ref" and "id" in e:
            if e["id"] in refs:
                return refs[e["id"]]
            return ("l", e["id"]), None
        if k == "Mem" and C.strip_casts(e["b"]).get("k") == "This":
            return ("m", e["n"]), None
        if k == "Idx":
            base, _ = self.lvalue(e["a"], st, refs)
            idx = self.eval(e["i"], st, refs)
            self.check_index(base, idx, e)
            return base, idx
        raise AnalysisBroken("abstract interpreter: unsupported lvalue %s (line %s)" % (C.pretty(e), e.get("l")))

    def check_index(self, base, idx, node):
        n = self.array_sizes.get(base)
        self.checked_indices += 1
        if n is None:
            self.note("index", node, "array %s has no known size" % (base,))
            return
        if not isinstance(idx, I) or idx.lo < 0 or idx.hi > n - 1:
            self.note("index", node, "index %s of an array of %d elements" % (idx, n))

    def read(self, key, st, node):
        v = st.get(key)
        if v is None:
            self.note("uninit", node, "%s is read before it has a value" % (key,))
            return TOP
        return v

    def write(self, key, idx, val, st):
        if idx is None:
            st[key] = val
        else:
            st[key] = join(st.get(key), val)      # smashed array: weak update

    # ------------------------------------------------------------------ expressions
    def fl(self, v, node):
        """Check that a floating-point result set is exactly representable."""
        self.checked_ops += 1
        if isinstance(v, G) and not v.exact_in_double():
            self.note("inexact", node, "result set %s needs more than 53 significant bits: the operation may round" % v)
            return TOP
        return v

    def eval(self, e, st, refs):
        e0 = e
        k = e.get("k")
        if k in ("ICast", "Cast"):
            v = self.eval(e["x"], st, refs)
            ck = e.get("ck", "")
            tt = e.get("t")
            if ck == "IntegralToFloating" or (is_float_type(tt) and isinstance(v, I)):
                if isinstance(v, I) and v.lo > -INF and v.hi < INF:
                    return self.fl(G(v.lo, v.hi, 0), e)
                return TOP
            if ck in ("IntegralCast",) or (is_int_type(tt) and isinstance(v, I)):
                r = int_range(tt)
                if isinstance(v, I) and r and (v.lo < r[0] or v.hi > r[1]):
                    # wrap-around possible: whole range of the target type
                    return I(r[0], r[1])
                return v
            if ck == "FloatingToIntegral":
                return TOP
            return v
        if k == "DefArg":
            return self.eval(e["x"], st, refs)
        if k == "Int":
            return I(int(e["v"]), int(e["v"]))
        if k == "Bool":
            return I(int(bool(e["v"])), int(bool(e["v"])))
        if k == "Float":
            # the double the compiler rounds the literal to (correct rounding, as Python's float())
            fr = Fraction(float(str(e.get("sp", e["v"])).rstrip("fFlL")))
            g = g_from_fraction(fr)
            if g is None:
                self.note("inexact", e, "literal %s is not finite" % e.get("sp", e["v"]))
                return TOP
            return g
        if k in ("Ref", "Mem", "Idx"):
            if k == "Ref" and "v" in e and "id" not in e:
                return I(int(e["v"]), int(e["v"]))
            key, idx = self.lvalue(e, st, refs)
            return self.read(key, st, e)
        if k == "Un":
            op = e["op"]
            if op in ("pre++", "post++", "pre--", "post--"):
                key, idx = self.lvalue(e["x"], st, refs)
                old = self.read(key, st, e)
                d = 1 if "++" in op else -1
                new = I(old.lo + d, old.hi + d) if isinstance(old, I) else TOP
                self.write(key, idx, new, st)
                return old if op.startswith("post") else new
            v = self.eval(e["x"], st, refs)
            if op == "-":
                if isinstance(v, G):
                    return G(-v.hi, -v.lo, v.e)
                if isinstance(v, I):
                    return I(-v.hi, -v.lo)
                return TOP
            if op == "+":
                return v
            return TOP
        if k == "Bin":
            op = e["op"]
            if op == "=":
                val = self.eval(e["b"], st, refs)
                key, idx = self.lvalue(e["a"], st, refs)
                val = self.coerce(val, e["a"].get("t"), e)
                self.write(key, idx, val, st)
                return val
            if op in ("+=", "-=", "*=", "/=", "%="):
                key, idx = self.lvalue(e["a"], st, refs)
                cur = self.read(key, st, e)
                rhs = self.eval(e["b"], st, refs)
                ct = e.get("ct") or e["a"].get("t")
                if is_float_type(ct):
                    cur, rhs = self.tofloat(cur, e), self.tofloat(rhs, e)
                val = self.arith(op[:-1], cur, rhs, e, is_float_type(ct))
                val = self.coerce(val, e["a"].get("t"), e)
                self.write(key, idx, val, st)
                return val
            if op == ",":
                self.eval(e["a"], st, refs)
                return self.eval(e["b"], st, refs)
            a = self.eval(e["a"], st, refs)
            b = self.eval(e["b"], st, refs)
            if op in ("<", ">", "<=", ">=", "==", "!="):
                return I(0, 1)
            return self.arith(op, a, b, e, is_float_type(e.get("t")))
        if k == "Call":
            return self.call(e, st, refs)
        if k == "Cond":
            s_t = self.refine(e["c"], st, refs, True)
            s_f = self.refine(e["c"], st, refs, False)
            vt = self.eval(e["a"], s_t, refs) if s_t is not None else None
            vf = self.eval(e["b"], s_f, refs) if s_f is not None else None
            new = self.join_states(s_t, s_f)
            if new is not None:
                st.clear()
                st.update(new)
            if vt is not None and vf is not None and type(vt) is not type(vf):
                if is_float_type(e.get("t")):
                    vt, vf = self.tofloat(vt, e), self.tofloat(vf, e)
            return join(vt, vf) if (vt is not None or vf is not None) else TOP
        if k == "Ctor" and len(e.get("a", [])) == 1:
            return self.eval(e["a"][0], st, refs)
        self.note("unknown", e, "expression kind %s not interpreted: %s" % (k, C.pretty(e0)))
        return TOP

    def tofloat(self, v, node):
        if isinstance(v, I):
            if v.lo > -INF and v.hi < INF:
                return G(v.lo, v.hi, 0)
            return TOP
        return v

    def coerce(self, val, t, node):
        if is_float_type(t) and isinstance(val, I):
            return self.fl(self.tofloat(val, node), node)
        if is_int_type(t) and isinstance(val, I):
            r = int_range(t)
            if r and (val.lo < r[0] or val.hi > r[1]):
                return I(r[0], r[1])
        return val

    def arith(self, op, a, b, node, isfloat):
        if not isfloat and op == "&":
            # masking with a non-negative constant bounds the result whatever the other operand is
            for x in (a, b):
                if isinstance(x, I) and x.is_const() and x.lo >= 0:
                    return I(0, x.lo)
        if isinstance(a, Top) or isinstance(b, Top):
            return TOP
        if isfloat:
            a, b = self.tofloat(a, node), self.tofloat(b, node)
            if isinstance(a, Top) or isinstance(b, Top):
                return TOP
            if op == "+":
                return self.fl(g_add(a, b, 1), node)
            if op == "-":
                return self.fl(g_add(a, b, -1), node)
            if op == "*":
                for x, y in ((a, b), (b, a)):
                    if x.is_const():
                        n = x.lo
                        if n == 0:
                            return G(0, 0, 0)
                        lo, hi = sorted((y.lo * n, y.hi * n))
                        return self.fl(G(lo, hi, y.e + x.e), node)
                self.note("unknown", node, "product of two non-constant sets")
                return TOP
            if op == "/":
                if a.is_const() and b.is_const() and b.lo != 0:
                    g = g_from_fraction(a.value() / b.value())
                    if g is None:
                        self.note("inexact", node, "quotient %s / %s is not a dyadic rational" % (a.value(), b.value()))
                        return TOP
                    return self.fl(g, node)
                if b.is_const() and b.lo != 0 and abs(b.lo) == 1:
                    # division by +-2^k: exact shift
                    lo, hi = sorted((a.lo * b.lo, a.hi * b.lo))
                    return self.fl(G(lo, hi, a.e - b.e), node)
                self.note("unknown", node, "quotient of non-constant sets")
                return TOP
            return TOP
        # integers
        if not (isinstance(a, I) and isinstance(b, I)):
            return TOP
        if op == "+":
            return I(a.lo + b.lo, a.hi + b.hi)
        if op == "-":
            return I(a.lo - b.hi, a.hi - b.lo)
        if op == "*":
            c = [x * y for x in (a.lo, a.hi) for y in (b.lo, b.hi) if not (math.isinf(x) and y == 0) and not
                 (math.isinf(y) and x == 0)] or [0]
            return I(min(c), max(c))
        if op == "%":
            if b.is_const() and b.lo > 0:
                m = b.lo
                if a.lo >= 0 and a.hi < m:
                    return I(a.lo, a.hi)
                if a.is_const():
                    r = int(math.fmod(a.lo, m))
                    return I(r, r)
                if a.lo >= 0 and a.hi < INF and a.hi - a.lo < m and (a.lo % m) <= (a.hi % m):
                    return I(a.lo % m, a.hi % m)
                if a.lo >= 0:
                    return I(0, m - 1)
                return I(-(m - 1), m - 1)
            return TOP
        if op == "/":
            if b.is_const() and b.lo > 0:
                m = b.lo
                if a.lo >= 0:
                    return I(a.lo // m if a.lo < INF else INF, a.hi // m if a.hi < INF else INF)
                return I(-(abs(a.lo) // m) if a.lo > -INF else -INF, (a.hi // m if a.hi >= 0 else 0) if a.hi < INF else INF)
            return TOP
        if op == "&":
            for x, y in ((a, b), (b, a)):
                if x.is_const() and x.lo >= 0:
                    return I(0, x.lo)
            return TOP
        if op == ">>" and b.is_const() and b.lo >= 0 and a.lo >= 0 and a.hi < INF:
            return I(a.lo >> b.lo, a.hi >> b.lo)
        if op in (">>", "<<"):
            return TOP
        return TOP

    # ------------------------------------------------------------------ calls
    def call(self, e, st, refs):
        fnq = e.get("fn") or ""
        cands = [d for d in self.unit.functions.get(fnq, []) if d.get("body") and not d.get("dependent")]
        if not fnq.startswith(self.cls + "::") or len(cands) != 1:
            self.note("unknown", e, "call to %s is not interpreted" % (fnq or C.pretty(e)))
            for a in e.get("a", []):
                self.eval(a, st, refs) if a.get("k") not in ("Ref", "Mem", "Idx") else None
            return TOP
        fn = cands[0]
        if self.depth > 4:
            raise AnalysisBroken("abstract interpreter: call depth exceeded at %s" % fnq)
        newrefs = {}
        for p, a in zip(fn["params"], e["a"]):
            pt = p["t"].rstrip()
            if pt.endswith("&") and not pt.startswith("const"):
                newrefs[p["id"]] = self.lvalue(a, st, refs)
            elif pt.endswith("*"):
                # pointer to the first element of an array: alias of the (smashed) array
                aa = C.strip_casts(a)
                key, idx = self.lvalue(aa, st, refs)
                newrefs[p["id"]] = (key, None)
            else:
                st[("l", p["id"])] = self.coerce(self.eval(a, st, refs), p["t"], a)
        self.depth += 1
        r = self.block(fn["body"], st, newrefs)
        self.depth -= 1
        return r if r is not None else TOP

    # ------------------------------------------------------------------ conditions
    def refine(self, c, st, refs, truth):
        """State restricted to `c == truth`, or None if that is impossible."""
        c = C.strip_casts(c)
        k = c.get("k")
        if k == "Un" and c["op"] == "!":
            return self.refine(c["x"], st, refs, not truth)
        if k == "Bin" and c["op"] in ("&&", "||"):
            if (c["op"] == "&&") == truth:
                s1 = self.refine(c["a"], st, refs, truth)
                return self.refine(c["b"], s1, refs, truth) if s1 is not None else None
            s1 = self.refine(c["a"], dict(st), refs, truth)
            s2 = self.refine(c["b"], dict(st), refs, truth)
            return self.join_states(s1, s2)
        if k == "Bin" and c["op"] in ("<", ">", "<=", ">=", "==", "!="):
            op = c["op"]
            if not truth:
                op = {"<": ">=", ">": "<=", "<=": ">", ">=": "<", "==": "!=", "!=": "=="}[op]
            st = dict(st)
            a = self.eval(c["a"], st, refs)
            b = self.eval(c["b"], st, refs)
            for lhs, lv, rv, o in ((c["a"], a, b, op),
                                   (c["b"], b, a, {"<": ">", ">": "<", "<=": ">=", ">=": "<=", "==": "==", "!=": "!="}[op])):
                ll = C.strip_casts(lhs)
                if ll.get("k") not in ("Ref", "Mem"):
                    continue
                try:
                    key, idx = self.lvalue(ll, st, refs)
                except AnalysisBroken:
                    continue
                if idx is not None:
                    continue
                nv = self.restrict(lv, rv, o)
                if nv is False:
                    return None
                if nv is not None:
                    st[key] = nv
            return st
        # plain value as condition
        v = self.eval(c, dict(st), refs)
        if isinstance(v, I):
            if truth and v.lo == v.hi == 0:
                return None
            if not truth and (v.lo > 0 or v.hi < 0):
                return None
        return dict(st)

    def restrict(self, v, bound, op):
        """v restricted by `v op bound`; False if empty, None if nothing learnt."""
        if isinstance(v, Top) or isinstance(bound, Top):
            return None
        if isinstance(v, G) or isinstance(bound, G):
            if isinstance(v, I):
                return None     # an integer variable compared with a float: not refined
            b = bound if isinstance(bound, G) else (G(bound.lo, bound.hi, 0) if bound.lo > -INF and bound.hi < INF else None)
            if b is None:
                return None
            e = min(v.e, b.e)
            lo, hi = v.on(e)
            bl, bh = b.on(e)
            if op == "<":
                hi = min(hi, bh - 1)
            elif op == "<=":
                hi = min(hi, bh)
            elif op == ">":
                lo = max(lo, bl + 1)
            elif op == ">=":
                lo = max(lo, bl)
            elif op == "==":
                lo, hi = max(lo, bl), min(hi, bh)
            else:
                return None
            if lo > hi:
                return False
            return G(lo, hi, e)
        lo, hi = v.lo, v.hi
        if op == "<":
            hi = min(hi, bound.hi - 1)
        elif op == "<=":
            hi = min(hi, bound.hi)
        elif op == ">":
            lo = max(lo, bound.lo + 1)
        elif op == ">=":
            lo = max(lo, bound.lo)
        elif op == "==":
            lo, hi = max(lo, bound.lo), min(hi, bound.hi)
        elif op == "!=":
            if bound.is_const():
                if lo == hi == bound.lo:
                    return False
                if lo == bound.lo:
                    lo += 1
                elif hi == bound.lo:
                    hi -= 1
            else:
                return None
        if lo > hi:
            return False
        return I(lo, hi)

    def join_states(self, a, b):
        if a is None:
            return b
        if b is None:
            return a
        out = {}
        for k in set(a) | set(b):
            if k in a and k in b:
                out[k] = join(a[k], b[k])
            # a key defined on one side only is undefined after the join
        return out

    # ------------------------------------------------------------------ statements
    def block(self, s, st, refs):
        """Executes statement s on state st (mutated in place). Returns the abstract return value if every path
        returned, else None; sets self._ret when some path returned."""
        k = s.get("k")
        if k == "Block":
            for c in s.get("s", []):
                r = self.block(c, st, refs)
                if r is not None:
                    return r
            return None
        if k == "Decl":
            for d in s["d"]:
                t = d.get("t") or ""
                if t.endswith("]") and "[" in t:
                    try:
                        self.array_sizes[("l", d["id"])] = int(t[t.rindex("[") + 1:-1])
                    except ValueError:
                        pass
                    continue
                if d.get("init") is None:
                    continue
                if t.rstrip().endswith("*") or t.rstrip().endswith("&"):
                    refs[d["id"]] = (self.lvalue(d["init"], st, refs)[0], None)
                    continue
                st[("l", d["id"])] = self.coerce(self.eval(d["init"], st, refs), t, d["init"])
            return None
        if k == "Null":
            return None
        if k == "Return":
            return self.eval(s["x"], st, refs) if s.get("x") is not None else TOP
        if k == "If":
            s_t = self.refine(s["c"], st, refs, True)
            s_f = self.refine(s["c"], st, refs, False)
            r_t = r_f = None
            if s_t is not None:
                r_t = self.block(s["th"], s_t, refs)
            if s_f is not None and s.get("el") is not None:
                r_f = self.block(s["el"], s_f, refs)
            live = [x for x, r in ((s_t, r_t), (s_f, r_f)) if x is not None and r is None]
            new = None
            for x in live:
                new = self.join_states(new, x)
            if new is None:
                return join(r_t, r_f) if (r_t is not None or r_f is not None) else None
            st.clear()
            st.update(new)
            if r_t is not None or r_f is not None:
                self._partial_return = join(getattr(self, "_partial_return", None), join(r_t, r_f))
            return None
        if k in ("For", "While"):
            if s.get("init") is not None:
                self.block(s["init"], st, refs) if s["init"].get("k") in ("Decl", "Block") else self.eval(s["init"], st, refs)
            return self.loop(s, st, refs)
        if k in ("Bin", "Un", "Call", "ICast", "Cast"):
            self.eval(s, st, refs)
            return None
        if k == "Block" or s.get("mac"):
            return None
        self.note("unknown", s, "statement kind %s not interpreted" % k)
        return None

    def const_trip(self, s, st, refs):
        """Trip count when the loop is `for (v = c0; v <op> c1; ++v / v += c)` with v and the bound constant on entry
        and v not modified in the body."""
        c = C.strip_casts(s.get("c")) if s.get("c") is not None else None
        inc = C.strip_casts(s.get("inc")) if s.get("inc") is not None else None
        if c is None or inc is None or c.get("k") != "Bin" or c["op"] not in ("<", "<=", ">", ">="):
            return None
        v = C.strip_casts(c["a"])
        if v.get("k") != "Ref":
            return None
        key = self.lvalue(v, st, refs)[0]
        cur = st.get(key)
        bound = self.eval(c["b"], dict(st), refs)
        if not (isinstance(cur, I) and cur.is_const() and isinstance(bound, I) and bound.is_const()):
            return None
        if inc.get("k") == "Un" and inc["op"] in ("pre++", "post++") and C.ref_key(inc["x"]) == C.ref_key(v):
            step = 1
        elif inc.get("k") == "Bin" and inc["op"] == "+=" and C.ref_key(inc["a"]) == C.ref_key(v) and \
                C.const_int(inc["b"]) and C.const_int(inc["b"]) > 0:
            step = C.const_int(inc["b"])
        else:
            return None
        for y in C.walk_stmt(s["body"]):
            for z in (C.walk(y) if y.get("k") not in ("Block", "If", "For", "While", "Do", "Decl") else ()):
                if z.get("k") == "Bin" and z["op"].endswith("=") and z["op"] not in ("==", "!=", "<=", ">=") and \
                        C.ref_key(z["a"]) == C.ref_key(v):
                    return None
                if z.get("k") == "Un" and z["op"] in ("pre++", "post++", "pre--", "post--") and \
                        C.ref_key(z["x"]) == C.ref_key(v):
                    return None
        if c["op"] not in ("<", "<="):
            return None
        hi = bound.lo if c["op"] == "<=" else bound.lo - 1
        if cur.lo > hi:
            return 0
        return (hi - cur.lo) // step + 1

    def loop(self, s, st, refs):
        n = self.const_trip(s, st, refs)
        if n is not None and n <= 4096:
            for _ in range(n):
                r = self.block(s["body"], st, refs)
                if r is not None:
                    return r
                if s.get("inc") is not None:
                    self.eval(s["inc"], st, refs)
            out = self.refine(s["c"], st, refs, False) if s.get("c") is not None else st
            if out is None:
                raise AnalysisBroken("abstract interpreter: unrolled loop at line %s does not terminate as counted" % s.get("l"))
            st.clear()
            st.update(out)
            return None
        # fixpoint: head = join(entry, back edge)
        head = dict(st)
        exit_state = None
        for it in range(80):
            body_in = self.refine(s["c"], head, refs, True) if s.get("c") is not None else dict(head)
            ex = self.refine(s["c"], head, refs, False) if s.get("c") is not None else None
            exit_state = ex
            if body_in is None:
                break
            r = self.block(s["body"], body_in, refs)
            if r is not None:
                raise AnalysisBroken("abstract interpreter: return inside a loop (line %s)" % s.get("l"))
            if s.get("inc") is not None:
                self.eval(s["inc"], body_in, refs)
            new = self.join_states(dict(head), body_in)
            if it >= 16:
                # widen integer bounds that still move (delayed: modular counters settle within their period)
                for k2, v in new.items():
                    o = head.get(k2)
                    if isinstance(v, I) and isinstance(o, I) and v != o:
                        new[k2] = I(-INF if v.lo < o.lo else v.lo, INF if v.hi > o.hi else v.hi)
                    elif isinstance(v, G) and isinstance(o, G) and v != o and it >= 24:
                        new[k2] = TOP
            if new == head:
                break
            head = new
        else:
            raise AnalysisBroken("abstract interpreter: no fixpoint for the loop at line %s" % s.get("l"))
        if exit_state is None:
            exit_state = self.refine(s["c"], head, refs, False) if s.get("c") is not None else None
        if exit_state is None:
            raise AnalysisBroken("abstract interpreter: loop at line %s has no exit" % s.get("l"))
        st.clear()
        st.update(exit_state)
        return None
