"""setup_cmd: build the AST exporter plugin and byte-compile the rules. Offline."""
import compileall
import os
import sys
from . import astdb


def main():
    astdb.build_plugin()
    compileall.compile_dir(os.path.dirname(os.path.abspath(__file__)), quiet=1)
    try:
        astdb.ensure_dump()
    except astdb.AnalysisBroken as e:
        print("warning: initial AST export failed:", e, file=sys.stderr)
    print("cmiv setup ok")


if __name__ == "__main__":
    main()
