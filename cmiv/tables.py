"""E2: table extraction / partial evaluation over an enum parameter, and the geometric
signature of the 27 travel directions derived from the code itself (rule C02-T1)."""
import itertools

from . import cfg as C
from .astdb import AnalysisBroken, where


def terminates(st):
    """The statement never falls through to the next one (return / abort on every path)."""
    if st is None:
        return False
    k = st.get("k")
    if k == "Return":
        return True
    if k == "Block":
        if st.get("mac") in C.ABORT_MACROS:
            return True
        return bool(st.get("s")) and terminates(st["s"][-1])
    if k == "If":
        return terminates(st.get("th")) and terminates(st.get("el"))
    return False


def switch_arms(fn, sw=None):
    """{case value: [statements]} and the default arm for the (single) switch of fn."""
    if sw is None:
        sws = [s for s in C.walk_stmt(fn["body"]) if s.get("k") == "Switch"]
        if len(sws) != 1:
            raise AnalysisBroken("%s: expected exactly one switch, found %d" % (fn["full"], len(sws)))
        sw = sws[0]
    body = sw["body"]["s"] if sw["body"].get("k") == "Block" else [sw["body"]]
    arms = {}
    default = None
    cur_labels = []
    cur = None
    for st in body:
        labels = []
        inner = st
        while inner is not None and inner.get("k") in ("Case", "Default"):
            labels.append("default" if inner["k"] == "Default" else inner.get("v"))
            inner = inner.get("sub")
        if labels:
            if cur is not None and not cur["closed"] and cur["stmts"]:
                raise AnalysisBroken("%s: case falls through into the next case (line %s)" % (fn["full"], st.get("l")))
            if cur is not None and not cur["closed"] and not cur["stmts"]:
                labels = cur["labels"] + labels      # stacked labels
            cur = {"labels": labels, "stmts": [], "closed": False, "line": st.get("l")}
            for lab in labels:
                if lab == "default":
                    default = cur
                else:
                    if lab is None:
                        raise AnalysisBroken("%s: non-constant case label" % fn["full"])
                    arms[lab] = cur
        if cur is None:
            raise AnalysisBroken("%s: statement before the first case" % fn["full"])
        if inner is not None:
            k = inner.get("k")
            if k == "Break":
                cur["closed"] = True
            else:
                cur["stmts"].append(inner)
                if terminates(inner) or (k == "Block" and not inner.get("mac") and inner.get("s") and
                                         inner["s"][-1].get("k") == "Break"):
                    cur["closed"] = True
    return sw, arms, default


def arm_return(arm):
    """The expression returned by an arm that is a single return (possibly after an abort)."""
    rets = [s for s in arm["stmts"] if s.get("k") == "Return"]
    if len(rets) != 1:
        return None
    return rets[0].get("x")


def arm_aborts(arm):
    return any(s.get("k") == "Block" and s.get("mac") in C.ABORT_MACROS for s in arm["stmts"])


def enum_values(unit, qname):
    e = unit.enums.get(qname)
    if e is None:
        raise AnalysisBroken("enum %s not found" % qname)
    return {c["n"]: c["v"] for c in e["consts"]}


def ifchain(fn, param_id):
    """For a body `if (p == A || p == B) {..} else if (...) {..} else {..}`:
    list of (set of values, arm statement), else arm."""
    top = [s for s in fn["body"]["s"] if s.get("k") == "If"]
    if len(top) != 1:
        raise AnalysisBroken("%s: expected one if/else-if chain" % fn["full"])
    out = []
    s = top[0]
    while s is not None and s.get("k") == "If":
        vals = set()

        def collect(e):
            e = C.strip_casts(e)
            if e.get("k") == "Bin" and e["op"] == "||":
                collect(e["a"])
                collect(e["b"])
            elif e.get("k") == "Bin" and e["op"] == "==":
                a, b = C.strip_casts(e["a"]), C.strip_casts(e["b"])
                if a.get("k") == "Ref" and a.get("id") == param_id and C.const_int(b) is not None:
                    vals.add(C.const_int(b))
                elif b.get("k") == "Ref" and b.get("id") == param_id and C.const_int(a) is not None:
                    vals.add(C.const_int(a))
                else:
                    raise AnalysisBroken("%s: condition %s is not a test of the direction" % (fn["full"], C.pretty(e)))
            else:
                raise AnalysisBroken("%s: condition %s is not a chain of == tests" % (fn["full"], C.pretty(e)))
        collect(s["c"])
        out.append((vals, s["th"]))
        s = s.get("el")
    return out, s


class Directions:
    """Geometric signature of every TravelDirection, derived from the exit classification code:
    DensitySubGrid::get_output_direction builds a 6-bit mask from `index < 0` / `index >= n` tests and
    TravelDirections::get_output_direction maps masks to directions."""

    def __init__(self, unit):
        self.unit = unit
        self.enum = enum_values(unit, "TravelDirection")
        self.names = {v: n for n, v in self.enum.items()}
        self.number = self.enum.get("TRAVELDIRECTION_NUMBER")
        self.inside = self.enum.get("TRAVELDIRECTION_INSIDE")
        self.bits = None
        self.sig = {}
        self.mask_of = {}
        self.problems = []
        self._derive()

    def _derive(self):
        u = self.unit
        gd = u.func("DensitySubGrid::get_output_direction")
        self.fn_mask = gd
        if len(gd["params"]) != 1:
            raise AnalysisBroken("DensitySubGrid::get_output_direction: expected one index parameter")
        self._pid = gd["params"][0]["id"]
        # partial evaluation over the 27 classifications of the index (per axis: below / inside / above the range)
        produced = {}
        for cx in "N.P":
            for cy in "N.P":
                for cz in "N.P":
                    cls = (cx, cy, cz)
                    m = self._eval_mask(gd, cls)
                    if m in produced:
                        raise AnalysisBroken("exit classification: index classes %s and %s give the same mask %d" %
                                             ("".join(produced[m]), "".join(cls), m))
                    produced[m] = cls
        self.class_of_mask = produced
        tfn = u.func("TravelDirections::get_output_direction")
        self.fn_table = tfn
        sw, arms, default = switch_arms(tfn)
        self.table = {}
        for m, arm in arms.items():
            r = arm_return(arm)
            self.table[m] = C.const_int(r) if r is not None else None
        self.default_value = C.const_int(arm_return(default)) if default is not None and arm_return(default) is not None \
            else None
        self.default_aborts = default is not None and arm_aborts(default)
        self.mask_range = sorted(set(range(64)) | set(produced) | set(self.table))
        for m in self.mask_range:
            got = self.table.get(m, self.default_value)
            if m in produced:
                sig = produced[m]
                if got is None or got < 0 or got in self.sig:
                    self.problems.append((m, "".join(sig), got))
                else:
                    self.sig[got] = tuple(sig)
                    self.mask_of[got] = m
            else:
                if m in self.table and self.table[m] is not None and self.table[m] >= 0:
                    self.problems.append((m, "not produced by any index classification", self.table[m]))

    def _eval_mask(self, gd, cls):
        """Value handed to TravelDirections::get_output_direction when the index has the given per-axis class."""
        env = {}
        arrays = {}
        result = []

        class Stop(Exception):
            pass

        def index_axis(x):
            x = C.strip_casts(x)
            base = idx = None
            if x.get("k") == "Call" and x.get("op") == "[]" and x.get("obj") is not None and x["a"]:
                base, idx = C.strip_casts(x["obj"]), x["a"][0]
            elif x.get("k") == "Idx":
                base, idx = C.strip_casts(x["a"]), x["i"]
            if base is None:
                return None, None
            v = ev(idx)
            return base, v

        def is_index(x):
            base, ax = index_axis(x)
            if base is not None and base.get("k") == "Ref" and base.get("id") == self._pid and isinstance(ax, int):
                return ax
            return None

        def is_ncell(x, ax):
            base, a2 = index_axis(x)
            return base is not None and C.member_name(base) == "_number_of_cells" and a2 == ax

        def ev(e):
            e = C.strip_casts(e)
            k = e.get("k")
            v = C.const_int(e)
            if v is not None and k != "Ref":
                return v
            if k == "Bool":
                return int(bool(e["v"]))
            if k == "Ref":
                if ("l", e.get("id")) in env:
                    return env[("l", e["id"])]
                if v is not None:
                    return v
                raise AnalysisBroken("exit classification: %s has no value (line %s)" % (e.get("n"), e.get("l")))
            if k in ("Idx",) or (k == "Call" and e.get("op") == "[]"):
                base, ax = index_axis(e)
                if base is not None and base.get("k") == "Ref" and ("a", base.get("id")) in arrays and isinstance(ax, int):
                    if ax not in arrays[("a", base["id"])]:
                        raise AnalysisBroken("exit classification: array element read before written (line %s)" % e.get("l"))
                    return arrays[("a", base["id"])][ax]
                raise AnalysisBroken("exit classification: `%s` is not a class test (line %s)" % (C.pretty(e), e.get("l")))
            if k == "Cond":
                return ev(e["a"]) if ev(e["c"]) else ev(e["b"])
            if k == "Un" and e["op"] == "!":
                return int(not ev(e["x"]))
            if k == "Un" and e["op"] == "-":
                return -ev(e["x"])
            if k == "Bin":
                op = e["op"]
                # the class tests
                a0, b0 = C.strip_casts(e["a"]), C.strip_casts(e["b"])
                ax = is_index(a0)
                if ax is not None and op in ("<", ">=") and C.const_int(b0) == 0:
                    return int((cls[ax] == "N") == (op == "<"))
                if ax is not None and op in (">=", "<") and is_ncell(b0, ax):
                    return int((cls[ax] == "P") == (op == ">="))
                if ax is not None and op in (">", "<=") and b0.get("k") == "Bin" and b0["op"] == "-" and \
                        is_ncell(b0["a"], ax) and C.const_int(b0["b"]) == 1:
                    return int((cls[ax] == "P") == (op == ">"))
                if op in (">", "<=", "==", "!=") and C.const_int(b0) == 0 and a0.get("k") == "Bin" and a0["op"] == "/":
                    ax2 = is_index(a0["a"])
                    if ax2 is not None and is_ncell(a0["b"], ax2):
                        # index / n > 0  <=>  index >= n (n > 0; a negative index divides to <= 0)
                        high = cls[ax2] == "P"
                        return int({">": high, "<=": not high, "!=": high, "==": not high}[op]) if op in (">", "<=") else \
                            int(high if op == "!=" and cls[ax2] != "N" else (not high if op == "==" and cls[ax2] != "N" else
                                                                            (_ for _ in ()).throw(AnalysisBroken(
                                                                                "exit classification: index / n compared with == on "
                                                                                "a negative index"))))
                if op in ("&&", "||"):
                    x = ev(e["a"])
                    if op == "&&":
                        return int(bool(x) and bool(ev(e["b"])))
                    return int(bool(x) or bool(ev(e["b"])))
                x, y = ev(e["a"]), ev(e["b"])
                if op == "+":
                    return x + y
                if op == "-":
                    return x - y
                if op == "*":
                    return x * y
                if op == "<<":
                    return x << y
                if op == "|":
                    return x | y
                if op == "&":
                    return x & y
                if op in ("<", ">", "<=", ">=", "==", "!="):
                    return int({"<": x < y, ">": x > y, "<=": x <= y, ">=": x >= y, "==": x == y, "!=": x != y}[op])
            if k == "Call" and e.get("fn") == "TravelDirections::get_output_direction" and e["a"]:
                result.append(ev(e["a"][0]))
                raise Stop()
            raise AnalysisBroken("exit classification: expression `%s` not understood (line %s)" % (C.pretty(e)[:80], e.get("l")))

        def assign(tgt, val):
            t = C.strip_casts(tgt)
            if t.get("k") == "Ref":
                env[("l", t["id"])] = val
                return
            base, ax = index_axis(t)
            if base is not None and base.get("k") == "Ref" and isinstance(ax, int):
                arrays.setdefault(("a", base["id"]), {})[ax] = val
                return
            raise AnalysisBroken("exit classification: assignment target `%s` not understood" % C.pretty(t))

        def run(st):
            k = st.get("k")
            if k == "Block":
                if st.get("mac"):
                    return
                for c in st.get("s", []):
                    run(c)
            elif k == "Decl":
                for d in st["d"]:
                    t = d.get("t") or ""
                    if t.endswith("]") and d.get("init") is None:
                        arrays[("a", d["id"])] = {}
                    elif t.endswith("]") and C.strip_casts(d["init"]).get("k") == "InitList":
                        arrays[("a", d["id"])] = {i: ev(x) for i, x in enumerate(C.strip_casts(d["init"])["a"])}
                    elif d.get("init") is not None:
                        env[("l", d["id"])] = ev(d["init"])
            elif k == "If":
                if ev(st["c"]):
                    run(st["th"])
                elif st.get("el") is not None:
                    run(st["el"])
            elif k == "For":
                if st.get("init") is not None:
                    run(st["init"])
                it = 0
                while st.get("c") is None or ev(st["c"]):
                    run(st["body"])
                    if st.get("inc") is not None:
                        run(st["inc"])
                    it += 1
                    if it > 64:
                        raise AnalysisBroken("exit classification: loop does not terminate in 64 iterations")
            elif k == "Bin" and st["op"] in ("=", "+=", "|=", "-=", "*=", "<<="):
                if st["op"] == "=":
                    assign(st["a"], ev(st["b"]))
                else:
                    cur = ev(st["a"])
                    y = ev(st["b"])
                    assign(st["a"], {"+=": cur + y, "-=": cur - y, "|=": cur | y, "*=": cur * y, "<<=": cur << y}[st["op"]])
            elif k == "Un" and st["op"] in ("pre++", "post++", "pre--", "post--"):
                assign(st["x"], ev(st["x"]) + (1 if "++" in st["op"] else -1))
            elif k == "Return":
                if st.get("x") is not None:
                    ev(st["x"])
            elif k == "Null":
                pass
            elif k == "Call":
                ev(st)
            else:
                raise AnalysisBroken("exit classification: statement kind %s not understood (line %s)" % (k, st.get("l")))
        try:
            run(gd["body"])
        except Stop:
            pass
        if len(result) != 1:
            raise AnalysisBroken("DensitySubGrid::get_output_direction: exit mask not found")
        return result[0]

    @staticmethod
    def _classify(e):
        """(axis, 'N'|'P') for `ti[a] < 0`, `(ti[a] / n[a]) > 0`, `ti[a] >= n[a]`."""
        def idx_axis(x):
            x = C.strip_casts(x)
            if x.get("k") == "Call" and x.get("op") == "[]" and x["a"]:
                return C.const_int(x["a"][0])
            if x.get("k") == "Idx":
                return C.const_int(x["i"])
            return None
        a, b = C.strip_casts(e["a"]), C.strip_casts(e["b"])
        if e["op"] == "<" and C.const_int(b) == 0 and idx_axis(a) is not None:
            return (idx_axis(a), "N")
        if e["op"] == ">" and C.const_int(b) == 0 and a.get("k") == "Bin" and a["op"] == "/":
            ax = idx_axis(a["a"])
            if ax is not None and C.member_name(C.strip_casts(a["b"]).get("a") if C.strip_casts(a["b"]).get("k") == "Idx"
                                                else None) == "_number_of_cells" and idx_axis(a["b"]) == ax:
                return (ax, "P")
        if e["op"] == ">=" and idx_axis(a) is not None and idx_axis(b) == idx_axis(a):
            return (idx_axis(a), "P")
        return None

    def name(self, v):
        return self.names.get(v, str(v))

    def all27(self):
        return sorted(self.sig)

    def opposite(self, v):
        want = tuple({"N": "P", "P": "N", ".": "."}[c] for c in self.sig[v])
        for k, s in self.sig.items():
            if s == want:
                return k
        return None

    def face(self, axis, side):
        want = tuple(side if a == axis else "." for a in range(3))
        for k, s in self.sig.items():
            if s == want:
                return k
        return None


class _TableReturn(Exception):
    def __init__(self, value, node):
        Exception.__init__(self)
        self.value, self.node = value, node


class _TableAbort(Exception):
    pass


def eval_table_function(fn, args):
    """Partial evaluation of a pure integer table function (switch / if chain / static const array look-up) for concrete
    integer arguments. Returns (value, return node); value is None when the call aborts. Raises AnalysisBroken on any
    construct that is not part of such a table."""
    env = {}
    arrays = {}
    for p, v in zip(fn["params"], args):
        env[p["id"]] = v

    def ev(e):
        e = C.strip_casts(e)
        k = e.get("k")
        if k == "Ref" and "id" in e and e["id"] in env:
            return env[e["id"]]
        v = C.const_int(e)
        if v is not None:
            return v
        if k == "Bool":
            return int(bool(e["v"]))
        if k == "Idx":
            b = C.strip_casts(e["a"])
            i = ev(e["i"])
            if b.get("k") == "Ref" and b.get("id") in arrays and 0 <= i < len(arrays[b["id"]]):
                return arrays[b["id"]][i]
            raise AnalysisBroken("%s: table look-up `%s` out of range or unknown" % (fn["full"], C.pretty(e)))
        if k == "Cond":
            return ev(e["a"]) if ev(e["c"]) else ev(e["b"])
        if k == "Un" and e["op"] == "!":
            return int(not ev(e["x"]))
        if k == "Un" and e["op"] == "-":
            return -ev(e["x"])
        if k == "Bin":
            op = e["op"]
            if op == "&&":
                return int(bool(ev(e["a"])) and bool(ev(e["b"])))
            if op == "||":
                return int(bool(ev(e["a"])) or bool(ev(e["b"])))
            x, y = ev(e["a"]), ev(e["b"])
            table = {"+": lambda: x + y, "-": lambda: x - y, "*": lambda: x * y, "<<": lambda: x << y, "|": lambda: x | y,
                     "&": lambda: x & y, "<": lambda: int(x < y), ">": lambda: int(x > y), "<=": lambda: int(x <= y),
                     ">=": lambda: int(x >= y), "==": lambda: int(x == y), "!=": lambda: int(x != y),
                     "%": lambda: x % y if y else 0, "/": lambda: x // y if y else 0}
            if op in table:
                return table[op]()
        raise AnalysisBroken("%s: expression `%s` is not part of an integer table (line %s)" %
                             (fn["full"], C.pretty(e)[:80], e.get("l")))

    def run(st):
        k = st.get("k")
        if k == "Block":
            if st.get("mac") in C.ABORT_MACROS:
                raise _TableAbort()
            if st.get("mac"):
                return
            for c in st.get("s", []):
                run(c)
        elif k == "Decl":
            for d in st["d"]:
                init = C.strip_casts(d["init"]) if d.get("init") is not None else None
                if init is not None and init.get("k") == "InitList":
                    arrays[d["id"]] = [ev(x) for x in init["a"]]
                elif init is not None:
                    env[d["id"]] = ev(init)
        elif k == "If":
            if ev(st["c"]):
                run(st["th"])
            elif st.get("el") is not None:
                run(st["el"])
        elif k == "Switch":
            sel = ev(st["c"])
            _, arms, default = switch_arms(fn, st)
            arm = arms.get(sel, default)
            if arm is not None:
                for s2 in arm["stmts"]:
                    run(s2)
        elif k == "Return":
            raise _TableReturn(ev(st["x"]) if st.get("x") is not None else None, st)
        elif k in ("Null", "Break"):
            pass
        elif k == "Bin" and st["op"] == "=" and C.strip_casts(st["a"]).get("k") == "Ref":
            env[C.strip_casts(st["a"])["id"]] = ev(st["b"])
        else:
            raise AnalysisBroken("%s: statement kind %s is not part of an integer table (line %s)" %
                                 (fn["full"], k, st.get("l")))
    try:
        run(fn["body"])
    except _TableReturn as r:
        return r.value, r.node
    except _TableAbort:
        return None, None
    return None, None
