"""E2: table extraction / partial evaluation over an enum parameter, and the geometric
signature of the 27 travel directions derived from the code itself (rule C02-T1)."""
import itertools

from . import cfg as C
from .astdb import AnalysisBroken, where


def terminates(st):
    """The statement never falls through to the next one (return / abort on every path)."""
    if st is None:
        return False
    k = st.get("k")
    if k == "Return":
        return True
    if k == "Block":
        if st.get("mac") in C.ABORT_MACROS:
            return True
        return bool(st.get("s")) and terminates(st["s"][-1])
    if k == "If":
        return terminates(st.get("th")) and terminates(st.get("el"))
    return False


def switch_arms(fn, sw=None):
    """{case value: [statements]} and the default arm for the (single) switch of fn."""
    if sw is None:
        sws = [s for s in C.walk_stmt(fn["body"]) if s.get("k") == "Switch"]
        if len(sws) != 1:
            raise AnalysisBroken("%s: expected exactly one switch, found %d" % (fn["full"], len(sws)))
        sw = sws[0]
    body = sw["body"]["s"] if sw["body"].get("k") == "Block" else [sw["body"]]
    arms = {}
    default = None
    cur_labels = []
    cur = None
    for st in body:
        labels = []
        inner = st
        while inner is not None and inner.get("k") in ("Case", "Default"):
            labels.append("default" if inner["k"] == "Default" else inner.get("v"))
            inner = inner.get("sub")
        if labels:
            if cur is not None and not cur["closed"] and cur["stmts"]:
                raise AnalysisBroken("%s: case falls through into the next case (line %s)" % (fn["full"], st.get("l")))
            if cur is not None and not cur["closed"] and not cur["stmts"]:
                labels = cur["labels"] + labels      # stacked labels
            cur = {"labels": labels, "stmts": [], "closed": False, "line": st.get("l")}
            for lab in labels:
                if lab == "default":
                    default = cur
                else:
                    if lab is None:
                        raise AnalysisBroken("%s: non-constant case label" % fn["full"])
                    arms[lab] = cur
        if cur is None:
            raise AnalysisBroken("%s: statement before the first case" % fn["full"])
        if inner is not None:
            k = inner.get("k")
            if k == "Break":
                cur["closed"] = True
            else:
                cur["stmts"].append(inner)
                if terminates(inner) or (k == "Block" and not inner.get("mac") and inner.get("s") and
                                         inner["s"][-1].get("k") == "Break"):
                    cur["closed"] = True
    return sw, arms, default


def arm_return(arm):
    """The expression returned by an arm that is a single return (possibly after an abort)."""
    rets = [s for s in arm["stmts"] if s.get("k") == "Return"]
    if len(rets) != 1:
        return None
    return rets[0].get("x")


def arm_aborts(arm):
    return any(s.get("k") == "Block" and s.get("mac") in C.ABORT_MACROS for s in arm["stmts"])


def enum_values(unit, qname):
    e = unit.enums.get(qname)
    if e is None:
        raise AnalysisBroken("enum %s not found" % qname)
    return {c["n"]: c["v"] for c in e["consts"]}


def ifchain(fn, param_id):
    """For a body `if (p == A || p == B) {..} else if (...) {..} else {..}`:
    list of (set of values, arm statement), else arm."""
    top = [s for s in fn["body"]["s"] if s.get("k") == "If"]
    if len(top) != 1:
        raise AnalysisBroken("%s: expected one if/else-if chain" % fn["full"])
    out = []
    s = top[0]
    while s is not None and s.get("k") == "If":
        vals = set()

        def collect(e):
            e = C.strip_casts(e)
            if e.get("k") == "Bin" and e["op"] == "||":
                collect(e["a"])
                collect(e["b"])
            elif e.get("k") == "Bin" and e["op"] == "==":
                a, b = C.strip_casts(e["a"]), C.strip_casts(e["b"])
                if a.get("k") == "Ref" and a.get("id") == param_id and C.const_int(b) is not None:
                    vals.add(C.const_int(b))
                elif b.get("k") == "Ref" and b.get("id") == param_id and C.const_int(a) is not None:
                    vals.add(C.const_int(a))
                else:
                    raise AnalysisBroken("%s: condition %s is not a test of the direction" % (fn["full"], C.pretty(e)))
            else:
                raise AnalysisBroken("%s: condition %s is not a chain of == tests" % (fn["full"], C.pretty(e)))
        collect(s["c"])
        out.append((vals, s["th"]))
        s = s.get("el")
    return out, s


class Directions:
    """Geometric signature of every TravelDirection, derived from the exit classification code:
    DensitySubGrid::get_output_direction builds a 6-bit mask from `index < 0` / `index >= n` tests and
    TravelDirections::get_output_direction maps masks to directions."""

    def __init__(self, unit):
        self.unit = unit
        self.enum = enum_values(unit, "TravelDirection")
        self.names = {v: n for n, v in self.enum.items()}
        self.number = self.enum.get("TRAVELDIRECTION_NUMBER")
        self.inside = self.enum.get("TRAVELDIRECTION_INSIDE")
        self.bits = None
        self.sig = {}
        self.mask_of = {}
        self.problems = []
        self._derive()

    def _derive(self):
        u = self.unit
        gd = u.func("DensitySubGrid::get_output_direction")
        self.fn_mask = gd
        # locals: x_low = three_index[0] < 0 ; x_high = (three_index[0] / _number_of_cells[0]) > 0
        role = {}
        decls = {}
        for s in C.walk_stmt(gd["body"]):
            if s.get("k") == "Decl":
                for d in s["d"]:
                    decls[d["id"]] = d
        for did, d in decls.items():
            e = C.strip_casts(d.get("init")) if d.get("init") else None
            if e is None or e.get("k") != "Bin":
                continue
            axis_side = self._classify(e)
            if axis_side:
                role[did] = axis_side
        # mask = (a << 5) | (b << 4) | ...
        mask_decl = None
        for did, d in decls.items():
            e = C.strip_casts(d.get("init")) if d.get("init") else None
            if e is not None and e.get("k") == "Bin" and e["op"] == "|":
                mask_decl = d
        if mask_decl is None:
            raise AnalysisBroken("DensitySubGrid::get_output_direction: exit mask not found")
        bits = {}

        def terms(e):
            e = C.strip_casts(e)
            if e.get("k") == "Bin" and e["op"] == "|":
                terms(e["a"])
                terms(e["b"])
            elif e.get("k") == "Bin" and e["op"] == "<<":
                r = C.strip_casts(e["a"])
                if r.get("k") == "Ref" and r.get("id") in role and C.const_int(e["b"]) is not None:
                    bits[C.const_int(e["b"])] = role[r["id"]]
                else:
                    raise AnalysisBroken("exit mask term %s not understood" % C.pretty(e))
            elif e.get("k") == "Ref" and e.get("id") in role:
                bits[0] = role[e["id"]]
            else:
                raise AnalysisBroken("exit mask term %s not understood" % C.pretty(e))
        terms(mask_decl["init"])
        if sorted(bits) != [0, 1, 2, 3, 4, 5] or sorted(bits.values()) != sorted(
                (a, s) for a in range(3) for s in ("N", "P")):
            raise AnalysisBroken("exit mask does not carry the six low/high tests exactly once: %s" % bits)
        self.bits = bits
        # the mask is what is passed to TravelDirections::get_output_direction
        calls = [x for x in C.walk_stmt(gd["body"]) if C.is_call(x, fn="TravelDirections::get_output_direction")]
        if len(calls) != 1 or C.ref_key(calls[0]["a"][0]) != ("local", mask_decl["id"], mask_decl["n"]):
            raise AnalysisBroken("exit mask is not what is classified")
        tfn = u.func("TravelDirections::get_output_direction")
        self.fn_table = tfn
        sw, arms, default = switch_arms(tfn)
        self.table = {}
        for m, arm in arms.items():
            r = arm_return(arm)
            self.table[m] = C.const_int(r) if r is not None else None
        self.default_value = C.const_int(arm_return(default)) if default is not None and arm_return(default) is not None \
            else None
        self.default_aborts = default is not None and arm_aborts(default)
        # signatures
        for m in range(64):
            sig = [".", ".", "."]
            valid = True
            for b, (a, s) in bits.items():
                if m >> b & 1:
                    if sig[a] != ".":
                        valid = False
                    sig[a] = s
            got = self.table.get(m, self.default_value)
            if valid:
                if got is None or got < 0 or got in self.sig:
                    self.problems.append((m, "".join(sig), got))
                else:
                    self.sig[got] = tuple(sig)
                    self.mask_of[got] = m
            else:
                if m in self.table and self.table[m] is not None and self.table[m] >= 0:
                    self.problems.append((m, "both bits of an axis", self.table[m]))

    @staticmethod
    def _classify(e):
        """(axis, 'N'|'P') for `ti[a] < 0`, `(ti[a] / n[a]) > 0`, `ti[a] >= n[a]`."""
        def idx_axis(x):
            x = C.strip_casts(x)
            if x.get("k") == "Call" and x.get("op") == "[]" and x["a"]:
                return C.const_int(x["a"][0])
            if x.get("k") == "Idx":
                return C.const_int(x["i"])
            return None
        a, b = C.strip_casts(e["a"]), C.strip_casts(e["b"])
        if e["op"] == "<" and C.const_int(b) == 0 and idx_axis(a) is not None:
            return (idx_axis(a), "N")
        if e["op"] == ">" and C.const_int(b) == 0 and a.get("k") == "Bin" and a["op"] == "/":
            ax = idx_axis(a["a"])
            if ax is not None and C.member_name(C.strip_casts(a["b"]).get("a") if C.strip_casts(a["b"]).get("k") == "Idx"
                                                else None) == "_number_of_cells" and idx_axis(a["b"]) == ax:
                return (ax, "P")
        if e["op"] == ">=" and idx_axis(a) is not None and idx_axis(b) == idx_axis(a):
            return (idx_axis(a), "P")
        return None

    def name(self, v):
        return self.names.get(v, str(v))

    def all27(self):
        return sorted(self.sig)

    def opposite(self, v):
        want = tuple({"N": "P", "P": "N", ".": "."}[c] for c in self.sig[v])
        for k, s in self.sig.items():
            if s == want:
                return k
        return None

    def face(self, axis, side):
        want = tuple(side if a == axis else "." for a in range(3))
        for k, s in self.sig.items():
            if s == want:
                return k
        return None
