"""Obligation bookkeeping, known findings, evidence files, exit codes."""
import json
import os
import sys
import time

from .astdb import VERIF, AnalysisBroken

KNOWN = os.path.join(VERIF, "known_findings.json")
EVID = os.environ.get("CMIV_EVIDENCE_DIR") or os.path.join(VERIF, "evidence")


def load_known():
    if not os.path.exists(KNOWN):
        return {"findings": [], "fixed": []}
    return json.load(open(KNOWN))


class Check:
    def __init__(self, pid, tier, level, seed=0):
        self.pid = pid
        self.tier = tier
        self.level = level
        self.seed = seed
        self.t0 = time.time()
        self.obligations = []     # dicts
        self.floors = []          # (rule, count, minimum)
        self.notes = []
        self.units = set()
        self.functions = set()
        self.assumptions = []
        self.trusted = ["clang 14 front end (parse, overload and template resolution)",
                        "tools/cmiast.cc AST export"]
        self.explanation = ""
        self.extra = {}
        self.selftest = None

    # -- recording ------------------------------------------------------
    def ok(self, rule, instance, where, detail=""):
        self.obligations.append({"rule": rule, "instance": instance, "where": where,
                                 "verdict": "holds", "detail": detail})

    def fail(self, rule, instance, where, detail, function="", construct=""):
        self.obligations.append({"rule": rule, "instance": instance, "where": where,
                                 "verdict": "VIOLATED", "detail": detail,
                                 "function": function, "construct": construct or instance})

    def require(self, cond, rule, instance, where, detail="", function="", construct=""):
        if cond:
            self.ok(rule, instance, where, detail if isinstance(detail, str) else "")
        else:
            self.fail(rule, instance, where, detail, function, construct)
        return cond

    def floor(self, rule, count, minimum):
        """Vacuity guard: the number of rule instances matched must reach the confirmed minimum."""
        self.floors.append((rule, count, minimum))

    def note(self, text):
        self.notes.append(text)

    def analysed(self, unit=None, function=None):
        if unit:
            self.units.add(unit)
        if function:
            self.functions.add(function)

    # -- finishing ------------------------------------------------------
    def has_unlisted(self):
        """True when a violation that no known finding lists has been recorded so far."""
        kf = [f for f in load_known().get("findings", []) if f["property"] == self.pid]
        for v in self.obligations:
            if v["verdict"] == "VIOLATED" and not any(
                    f["rule"] == v["rule"] and f.get("function", "") == v.get("function", "") and
                    f["construct"] == v.get("construct") for f in kf):
                return True
        return False

    def finish(self):
        known = load_known()
        kf = [f for f in known.get("findings", []) if f["property"] == self.pid]
        viol = [o for o in self.obligations if o["verdict"] == "VIOLATED"]
        unlisted = []
        listed = []
        for v in viol:
            hit = None
            for f in kf:
                if f["rule"] == v["rule"] and f.get("function", "") == v.get("function", "") \
                        and f["construct"] == v.get("construct"):
                    hit = f
                    break
            if hit:
                listed.append((v, hit))
                v["verdict"] = "KNOWN-FINDING"
            else:
                unlisted.append(v)
        for rule, count, minimum in self.floors:
            # a reported (unlisted) violation is not a vacuous pass: floors only guard runs that report nothing new
            if count < minimum and not unlisted:
                raise AnalysisBroken("rule %s matched %d instances, confirmed minimum is %d "
                                     "(anchor moved or extractor blind)" % (rule, count, minimum))
        os.makedirs(os.path.join(EVID, "replay"), exist_ok=True)
        for v, f in listed:
            print("KNOWN-FINDING: property=%s %s" % (self.pid, f.get("what", v["detail"])))
        n = 0
        for v in unlisted:
            n += 1
            rp = os.path.join(EVID, "replay", "%s-%d.json" % (self.pid, n))
            json.dump(v, open(rp, "w"), indent=1)
            print("%s: rule %s [%s] %s" % (v["where"], v["rule"], v["instance"], v["detail"]))
            print("VIOLATION property=%s replay=%s" % (self.pid, rp))
        self._write_evidence(len(unlisted), len(listed))
        tot = len(self.obligations)
        print("%s %s: %d obligations over %d functions in %d units, %d violated, %d known findings, %.1fs"
              % (self.pid, self.tier, tot, len(self.functions), len(self.units), len(unlisted),
                 len(listed), time.time() - self.t0))
        return 1 if unlisted else 0

    def _write_evidence(self, nviol, nknown):
        tot = len(self.obligations)
        held = sum(1 for o in self.obligations if o["verdict"] == "holds")
        per_rule = {}
        for o in self.obligations:
            r = per_rule.setdefault(o["rule"], {"instances": 0, "holds": 0})
            r["instances"] += 1
            if o["verdict"] == "holds":
                r["holds"] += 1
        for rule, count, minimum in self.floors:
            per_rule.setdefault(rule, {"instances": 0, "holds": 0})
            per_rule[rule]["matched"] = count
            per_rule[rule]["confirmed_minimum"] = minimum
        # one sample per rule first, then fill up
        samples = []
        seen = set()
        for o in self.obligations:
            if o["rule"] not in seen:
                seen.add(o["rule"])
                samples.append(o)
        for o in self.obligations:
            if len(samples) >= 40:
                break
            if o not in samples:
                samples.append(o)
        distinct = len({(o["rule"], o["instance"]) for o in self.obligations})
        cov = {
            "obligations": tot,
            "discharged": held,
            "evaluations": tot,
            "distinct_nontrivial": distinct,
            "rule": "one obligation per (rule, instance) extracted from /repo's current source; "
                    "distinct = distinct (rule, instance) pairs; an instance is a concrete "
                    "construct (function, table cell, member, call site, path, identity)",
            "checker_cmd": "bin/cmi-verify %s --tier %s" % (self.pid, self.tier),
            "trusted_base": self.trusted,
            "explanation": self.explanation,
            "samples": samples,
            "per_rule": per_rule,
            "units_analysed": sorted(self.units),
            "functions_analysed": sorted(self.functions),
            "notes": self.notes,
            "known_findings_reported": nknown,
            "exhaustive": True,
        }
        cov.update(self.extra)
        if self.selftest is not None:
            cov["selftest"] = self.selftest
        ev = {
            "property_id": self.pid,
            "tier": self.tier,
            "seed": self.seed,
            "level": self.level if (self.level != "proof" or held == tot) else "other",
            "coverage": cov,
            "assumptions": self.assumptions,
            "wall_s": round(time.time() - self.t0, 2),
            "violations": nviol,
        }
        os.makedirs(EVID, exist_ok=True)
        tmp = os.path.join(EVID, self.pid + ".json.tmp")
        json.dump(ev, open(tmp, "w"), indent=1)
        os.replace(tmp, os.path.join(EVID, self.pid + ".json"))
