"""Driver: cmi-verify <ID> --tier quick|thorough.  Exit 0 holds / 1 violation / 2 analysis-broken."""
import argparse
import importlib
import os
import sys
import traceback

from . import astdb, report

LEVELS = {"C05": "proof", "C07": "proof", "C11": "proof", "C19": "proof"}


def main(argv=None):
    ap = argparse.ArgumentParser()
    ap.add_argument("pid")
    ap.add_argument("--tier", default=os.environ.get("VERIF_TIER", "quick"),
                    choices=["quick", "thorough"])
    a = ap.parse_args(argv)
    pid = a.pid.upper()
    try:
        seed = int(os.environ.get("VERIF_SEED", "0"))
    except ValueError:
        seed = 0
    try:
        mod = importlib.import_module("cmiv.rules." + pid.lower())
    except ImportError as e:
        print("no check for property %s: %s" % (pid, e), file=sys.stderr)
        return 2
    chk = report.Check(pid, a.tier, getattr(mod, "LEVEL", LEVELS.get(pid, "other")), seed)
    try:
        prog = astdb.Program()
        mod.run(chk, prog)
        return chk.finish()
    except astdb.AnalysisBroken as e:
        print("ANALYSIS-BROKEN property=%s: %s" % (pid, e), file=sys.stderr)
        return 2
    except Exception:
        traceback.print_exc()
        print("ANALYSIS-BROKEN property=%s: internal error in the checker" % pid, file=sys.stderr)
        return 2


if __name__ == "__main__":
    sys.exit(main())
