"""Driver: cmi-verify <ID> --tier quick|thorough.  Exit 0 holds / 1 violation / 2 analysis-broken."""
import argparse
import importlib
import os
import sys
import traceback

from . import astdb, report

LEVELS = {"C05": "proof", "C07": "proof", "C11": "proof", "C17": "proof", "C19": "proof"}


def selftest(pid):
    """Sensitivity corpus: every mutants/<pid>/*.patch and seeded/*/patch.diff for this property is
    applied to a scratch copy of /repo/src and must be reported (exit 1). Never affects the verdict."""
    import glob
    import json
    import subprocess
    from concurrent.futures import ThreadPoolExecutor
    patches = sorted(glob.glob(os.path.join(astdb.VERIF, "mutants", pid, "*.patch")))
    for meta in sorted(glob.glob(os.path.join(astdb.VERIF, "seeded", "*", "meta.json"))):
        try:
            m = json.load(open(meta))
        except Exception:
            continue
        if m.get("property") == pid and m.get("expected_detected", True):
            patches.append(os.path.join(os.path.dirname(meta), "patch.diff"))
    res = {"applied": 0, "detected": 0, "skipped": 0, "missed": [], "broken": []}

    def one(p):
        r = subprocess.run([os.path.join(astdb.VERIF, "tools", "trypatch.sh"), p, pid, "quick"],
                           capture_output=True, text=True)
        return p, r.returncode, r.stdout

    with ThreadPoolExecutor(max_workers=4) as ex:
        for p, rc, out in ex.map(one, patches):
            name = os.path.relpath(p, astdb.VERIF)
            if rc == 3:
                res["skipped"] += 1
                continue
            res["applied"] += 1
            if rc == 1 and "VIOLATION property=%s" % pid in out:
                res["detected"] += 1
            elif rc == 2:
                res["broken"].append(name)
            else:
                res["missed"].append(name)
    return res


def main(argv=None):
    ap = argparse.ArgumentParser()
    ap.add_argument("pid")
    ap.add_argument("--tier", default=os.environ.get("VERIF_TIER", "quick"),
                    choices=["quick", "thorough"])
    a = ap.parse_args(argv)
    pid = a.pid.upper()
    try:
        seed = int(os.environ.get("VERIF_SEED", "0"))
    except ValueError:
        seed = 0
    try:
        mod = importlib.import_module("cmiv.rules." + pid.lower())
    except Exception as e:
        print("ANALYSIS-BROKEN property=%s: cannot load the check: %r" % (pid, e), file=sys.stderr)
        return 2
    chk = report.Check(pid, a.tier, getattr(mod, "LEVEL", LEVELS.get(pid, "other")), seed)
    # watchdog: a check that does not finish is analysis-broken, never a silent hang (a computer-algebra step can blow
    # up on a changed formula); generous limits, overridable
    try:
        import signal
        limit = int(os.environ.get("CMIV_TIME_LIMIT", "1800" if a.tier == "quick" else "14400"))

        def _expired(signum, frame):
            print("ANALYSIS-BROKEN property=%s: the check did not finish within %d s" % (pid, limit), file=sys.stderr)
            sys.stderr.flush()
            os._exit(2)
        signal.signal(signal.SIGALRM, _expired)
        signal.alarm(limit)
    except (ValueError, OSError):
        pass
    if os.environ.get("CMIV_TRACE_AFTER"):
        import faulthandler
        faulthandler.dump_traceback_later(int(os.environ["CMIV_TRACE_AFTER"]), exit=True)
    try:
        prog = astdb.Program()
        mod.run(chk, prog)
        if a.tier == "thorough" and not os.environ.get("CMIV_REPO"):
            chk.selftest = selftest(pid)
        return chk.finish()
    except astdb.AnalysisBroken as e:
        if chk.has_unlisted():
            # a violation established before the analysis lost its footing stays a violation: report it (exit 1) and say
            # that the rest of the rules could not be evaluated
            print("ANALYSIS-INCOMPLETE property=%s: %s (violations found before this point are reported)" % (pid, e),
                  file=sys.stderr)
            chk.note("analysis incomplete after the reported violations: %s" % e)
            try:
                return chk.finish()
            except astdb.AnalysisBroken:
                pass
        print("ANALYSIS-BROKEN property=%s: %s" % (pid, e), file=sys.stderr)
        return 2
    except Exception:
        traceback.print_exc()
        print("ANALYSIS-BROKEN property=%s: internal error in the checker" % pid, file=sys.stderr)
        return 2


if __name__ == "__main__":
    sys.exit(main())
